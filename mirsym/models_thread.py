"""Thread-level models on top of sched.py: std::thread::spawn / JoinHandle::join run the spawned closure's real MIR as a
simulated thread; std::sync::Barrier is a generation-counting barrier whose release is a scheduling point."""
from .values import *
from .models import model, deref_all, usize


def _sched(e):
    from .sched import _sched as f
    return f(e)


class JoinHandleObj:
    def __init__(self, t):
        self.t = t
        self.variant = None


class BarrierObj:
    def __init__(self, n):
        self.n, self.count, self.generation = n, 0, 0
        self.variant = None


@model(r"^(rayon::|rayon_core::)?current_num_threads$")
def rayon_threads(e, c, a):
    return usize(4)


@model(r"^(std::)?thread::spawn::<")
def thread_spawn(e, c, a):
    s = _sched(e)
    clo = a[0]
    n = sum(1 for t in s.threads if t.name.startswith("worker"))
    t = s.spawn(lambda: e.call_closure(clo, []), f"worker{n}")
    return JoinHandleObj(t)


@model(r"^(std::thread::)?JoinHandle::<.*>::join$")
def join_handle_join(e, c, a):
    h = deref_all(e, a[0])
    s = _sched(e)
    if h.t.state != "done":
        s.log.append((s.current.name, "join?", h.t.name))
        s.block_on(("join", [h.t]))
    return ok(h.t.result)


@model(r"^(std::sync::)?Barrier::new$")
def barrier_new(e, c, a):
    n = a[0]
    if not n.conc():
        raise Unsupported("Barrier::new with a symbolic party count")
    return BarrierObj(n.v)


@model(r"^(std::sync::)?Barrier::wait$")
def barrier_wait(e, c, a):
    b = deref_all(e, a[0])
    s = _sched(e)
    cur = s.current
    b.count += 1
    s.log.append((cur.name, "barrier", b.count))
    if b.count < b.n:
        s.block_on(("barrier", b, b.generation))
        return Agg([False], ty="BarrierWaitResult")
    b.count = 0
    b.generation += 1
    s.yield_point()
    return Agg([True], ty="BarrierWaitResult")


@model(r"^<(u8|u16|u32|u64|usize|i8|i16|i32|i64|isize) as ToString>::to_string$")
def int_to_string(e, c, a):
    v = deref_all(e, a[0])
    if not v.conc():
        raise Unsupported("to_string of a symbolic integer")
    return VecObj([Int(8, 0, b) for b in str(v.sval()).encode()], "String")


@model(r"^core::bool::<impl bool>::then_some::<|^<impl bool>::then_some::<|^bool::then_some::<")
def bool_then_some(e, c, a):
    return some(a[1]) if e.branch(a[0]) else none()


@model(r"^core::bool::<impl bool>::then::<|^<impl bool>::then::<|^bool::then::<")
def bool_then(e, c, a):
    return some(e.call_closure(a[1], [])) if e.branch(a[0]) else none()
