"""Iterator models: lazy Python iterator objects with next()/next_back(), dispatched by method name."""
import re
import z3
from .values import *
from .values import mk, mkbool, zbool, b_not, b_and, b_or, copy_val, deep_clone
from .mirparse import split_top
from .models import model, load, deref_all, usize, values_eq, values_cmp, ordering, ite_int, default_value

END = object()


class It:
    """Base iterator object."""
    def next(self, e):
        raise NotImplementedError

    def next_back(self, e):
        raise Unsupported(f"next_back on {type(self).__name__}")

    def size_hint(self, e):
        return None


class SliceIt(It):
    def __init__(self, sl, by_value=False):
        self.sl, self.i, self.j, self.by_value = sl, 0, sl.hi - sl.lo, by_value

    def _item(self, e, k):
        r = e.elem_ref(self.sl, k)
        return e.load(r) if self.by_value else r

    def next(self, e):
        if self.i >= self.j:
            return END
        k = self.i; self.i += 1
        return self._item(e, k)

    def next_back(self, e):
        if self.i >= self.j:
            return END
        self.j -= 1
        return self._item(e, self.j)

    def size_hint(self, e):
        return self.j - self.i

    def clone_obj(self):
        c = SliceIt(self.sl, self.by_value); c.i, c.j = self.i, self.j; return c


class ListIt(It):
    """Owning iterator over a Python list of values (Vec::into_iter, drain, collected intermediates)."""
    def __init__(self, items):
        self.items, self.i, self.j = list(items), 0, len(items)

    def next(self, e):
        if self.i >= self.j:
            return END
        self.i += 1
        return self.items[self.i - 1]

    def next_back(self, e):
        if self.i >= self.j:
            return END
        self.j -= 1
        return self.items[self.j]

    def size_hint(self, e):
        return self.j - self.i

    def clone_obj(self):
        c = ListIt(self.items); c.i, c.j = self.i, self.j; return c


class RangeIt(It):
    """Iterates the Range Agg in place (start field is advanced, as in std)."""
    def __init__(self, agg, inclusive=False):
        self.r, self.incl = agg, inclusive

    def next(self, e):
        r = self.r
        lo, hi = r.f[0], r.f[1]
        if self.incl:
            if len(r.f) > 2 and r.f[2] is True:
                return END
            if not e.branch(e.binop("Le", lo, hi)):
                return END
            if e.branch(e.binop("Eq", lo, hi)):
                r.f[2:] = [True]
            else:
                r.f[0] = e.binop("Add", lo, Int(lo.w, lo.s, 1))
            return lo
        if not e.branch(e.binop("Lt", lo, hi)):
            return END
        r.f[0] = e.binop("Add", lo, Int(lo.w, lo.s, 1))
        return lo

    def next_back(self, e):
        r = self.r
        lo, hi = r.f[0], r.f[1]
        if self.incl:
            if len(r.f) > 2 and r.f[2] is True:
                return END
            if not e.branch(e.binop("Le", lo, hi)):
                return END
            if e.branch(e.binop("Eq", lo, hi)):
                r.f[2:] = [True]
            else:
                r.f[1] = e.binop("Sub", hi, Int(hi.w, hi.s, 1))
            return hi
        if not e.branch(e.binop("Lt", lo, hi)):
            return END
        nh = e.binop("Sub", hi, Int(hi.w, hi.s, 1)); r.f[1] = nh
        return nh

    def size_hint(self, e):
        lo, hi = self.r.f[0], self.r.f[1]
        if lo.conc() and hi.conc():
            return max(0, hi.sval() - lo.sval() + (1 if self.incl else 0))
        return None


class RangeFromIt(It):
    def __init__(self, agg):
        self.r = agg

    def next(self, e):
        lo = self.r.f[0]
        self.r.f[0] = e.binop("Add", lo, Int(lo.w, lo.s, 1))
        return lo


class Rev(It):
    def __init__(self, inner):
        self.inner = inner

    def next(self, e):
        return self.inner.next_back(e)

    def next_back(self, e):
        return self.inner.next(e)

    def size_hint(self, e):
        return self.inner.size_hint(e)


class Map(It):
    def __init__(self, inner, f):
        self.inner, self.f = inner, f

    def next(self, e):
        x = self.inner.next(e)
        return END if x is END else e.call_closure(self.f, [x])

    def next_back(self, e):
        x = self.inner.next_back(e)
        return END if x is END else e.call_closure(self.f, [x])

    def size_hint(self, e):
        return self.inner.size_hint(e)


class Filter(It):
    def __init__(self, inner, f):
        self.inner, self.f = inner, f

    def next(self, e):
        while True:
            x = self.inner.next(e)
            if x is END:
                return END
            if e.branch(e.call_closure(self.f, [Ref(Cell(x))])):
                return x

    def next_back(self, e):
        while True:
            x = self.inner.next_back(e)
            if x is END:
                return END
            if e.branch(e.call_closure(self.f, [Ref(Cell(x))])):
                return x


class FilterMap(It):
    def __init__(self, inner, f):
        self.inner, self.f = inner, f

    def next(self, e):
        while True:
            x = self.inner.next(e)
            if x is END:
                return END
            r = e.call_closure(self.f, [x])
            if r.variant == 1:
                return r.f[0]


class Take(It):
    def __init__(self, inner, n):
        self.inner, self.n = inner, n

    def next(self, e):
        if self.n <= 0:
            return END
        self.n -= 1
        return self.inner.next(e)

    def next_back(self, e):
        sz = self.inner.size_hint(e)
        if sz is None:
            raise Unsupported("Take::next_back without exact size")
        while sz > self.n:
            self.inner.next_back(e); sz -= 1
        if self.n <= 0:
            return END
        self.n -= 1
        return self.inner.next_back(e)

    def size_hint(self, e):
        s = self.inner.size_hint(e)
        return None if s is None else min(s, self.n)


class Skip(It):
    def __init__(self, inner, n):
        self.inner, self.n = inner, n

    def next(self, e):
        while self.n > 0:
            self.n -= 1
            if self.inner.next(e) is END:
                return END
        return self.inner.next(e)

    def next_back(self, e):
        s = self.size_hint(e)
        if s is None:
            raise Unsupported("Skip::next_back without exact size")
        return self.inner.next_back(e) if s > 0 else END

    def size_hint(self, e):
        s = self.inner.size_hint(e)
        return None if s is None else max(0, s - self.n)


class StepBy(It):
    def __init__(self, inner, n):
        self.inner, self.n, self.first = inner, n, True

    def next(self, e):
        if self.first:
            self.first = False
            return self.inner.next(e)
        for _ in range(self.n - 1):
            if self.inner.next(e) is END:
                return END
        return self.inner.next(e)


class Zip(It):
    def __init__(self, a, b):
        self.a, self.b = a, b

    def next(self, e):
        x = self.a.next(e)
        if x is END:
            return END
        y = self.b.next(e)
        if y is END:
            return END
        return Agg([x, y], ty="tuple")

    def size_hint(self, e):
        s, t = self.a.size_hint(e), self.b.size_hint(e)
        return None if s is None or t is None else min(s, t)

    def next_back(self, e):
        s, t = self.a.size_hint(e), self.b.size_hint(e)
        if s is None or t is None:
            raise Unsupported("Zip::next_back without exact size")
        while s > t:
            self.a.next_back(e); s -= 1
        while t > s:
            self.b.next_back(e); t -= 1
        x = self.a.next_back(e)
        if x is END:
            return END
        return Agg([x, self.b.next_back(e)], ty="tuple")


class Enumerate(It):
    def __init__(self, inner):
        self.inner, self.n = inner, 0

    def next(self, e):
        x = self.inner.next(e)
        if x is END:
            return END
        self.n += 1
        return Agg([usize(self.n - 1), x], ty="tuple")

    def next_back(self, e):
        s = self.inner.size_hint(e)
        if s is None:
            raise Unsupported("Enumerate::next_back without exact size")
        x = self.inner.next_back(e)
        if x is END:
            return END
        return Agg([usize(self.n + s - 1), x], ty="tuple")

    def size_hint(self, e):
        return self.inner.size_hint(e)


class Chain(It):
    def __init__(self, a, b):
        self.a, self.b = a, b

    def next(self, e):
        if self.a is not None:
            x = self.a.next(e)
            if x is not END:
                return x
            self.a = None
        return self.b.next(e)

    def next_back(self, e):
        x = self.b.next_back(e)
        if x is not END:
            return x
        return self.a.next_back(e) if self.a is not None else END

    def size_hint(self, e):
        s = self.a.size_hint(e) if self.a is not None else 0
        t = self.b.size_hint(e)
        return None if s is None or t is None else s + t


class Copied(It):
    def __init__(self, inner):
        self.inner = inner

    def next(self, e):
        x = self.inner.next(e)
        return END if x is END else deep_clone(e.load(x))

    def next_back(self, e):
        x = self.inner.next_back(e)
        return END if x is END else deep_clone(e.load(x))

    def size_hint(self, e):
        return self.inner.size_hint(e)


class Peekable(It):
    def __init__(self, inner):
        self.inner, self.buf = inner, None

    def next(self, e):
        if self.buf is not None:
            x = self.buf[0]; self.buf = None; return x
        return self.inner.next(e)

    def peek(self, e):
        if self.buf is None:
            self.buf = [self.inner.next(e)]
        return self.buf[0]


class TakeWhile(It):
    def __init__(self, inner, f):
        self.inner, self.f, self.done = inner, f, False

    def next(self, e):
        if self.done:
            return END
        x = self.inner.next(e)
        if x is END:
            return END
        if e.branch(e.call_closure(self.f, [Ref(Cell(x))])):
            return x
        self.done = True
        return END


class SkipWhile(It):
    def __init__(self, inner, f):
        self.inner, self.f, self.started = inner, f, False

    def next(self, e):
        while True:
            x = self.inner.next(e)
            if x is END or self.started:
                return x
            if not e.branch(e.call_closure(self.f, [Ref(Cell(x))])):
                self.started = True
                return x


class FlatMap(It):
    def __init__(self, inner, f):
        self.inner, self.f, self.cur = inner, f, None

    def next(self, e):
        while True:
            if self.cur is not None:
                x = self.cur.next(e)
                if x is not END:
                    return x
                self.cur = None
            y = self.inner.next(e)
            if y is END:
                return END
            self.cur = as_iter(e, e.call_closure(self.f, [y]) if self.f is not None else y)


class Chunks(It):
    def __init__(self, sl, n, exact=False):
        self.sl, self.n, self.pos, self.exact = sl, n, sl.lo, exact

    def next(self, e):
        if self.pos >= self.sl.hi:
            return END
        end = min(self.pos + self.n, self.sl.hi)
        if self.exact and end - self.pos < self.n:
            return END
        r = Slice(self.sl.cell, self.sl.path, self.pos, end); self.pos = end
        return r

    def size_hint(self, e):
        rem = self.sl.hi - self.pos
        return rem // self.n if self.exact else -(-rem // self.n)


class Windows(It):
    def __init__(self, sl, n):
        self.sl, self.n, self.pos = sl, n, sl.lo

    def next(self, e):
        if self.pos + self.n > self.sl.hi:
            return END
        r = Slice(self.sl.cell, self.sl.path, self.pos, self.pos + self.n); self.pos += 1
        return r


class OnceIt(It):
    def __init__(self, items):
        self.items = list(items)

    def next(self, e):
        return self.items.pop(0) if self.items else END

    def next_back(self, e):
        return self.items.pop() if self.items else END

    def size_hint(self, e):
        return len(self.items)


class SplitIt(It):
    """str.split(pat) / split_whitespace / lines over a *concrete-length* byte window; the separator test may be symbolic."""
    def __init__(self, sl, is_sep, skip_empty=False, strip_cr=False, lines=False):
        self.sl, self.pos, self.is_sep, self.skip_empty, self.done, self.lines = sl, sl.lo, is_sep, skip_empty, False, lines

    def next(self, e):
        l = e._seq(e.read(self.sl.cell, self.sl.path))
        while not self.done:
            start = self.pos
            k = start
            while k < self.sl.hi and not e.branch(self.is_sep(e, l[k])):
                k += 1
            if k >= self.sl.hi:
                self.done = True
                if self.lines and start == self.sl.hi:
                    return END
            else:
                self.pos = k + 1
            end = k
            if self.lines and end > start and e.branch(e.binop("Eq", l[end - 1], Int(8, 0, 13))):
                end -= 1
            if self.skip_empty and end == start:
                continue
            return Slice(self.sl.cell, self.sl.path, start, end)
        return END


def as_iter(e, v):
    if isinstance(v, It):
        return v
    if isinstance(v, Ref):
        t = e.load(v)
        if isinstance(t, It):
            return t
        if isinstance(t, Agg) and t.ty in ("Range", "RangeInclusive", "RangeFrom"):
            return as_iter(e, t)
        if isinstance(t, (VecObj, Agg)) and (isinstance(t, VecObj) or t.ty == "array"):
            return SliceIt(e.as_slice(v))
        if isinstance(t, (Ref, Slice)):
            return as_iter(e, t)
        if hasattr(t, "iter_items"):
            return ListIt(t.iter_items(e, by_ref=True, owner=v))
        raise Unsupported(f"as_iter on ref to {t!r}")
    if isinstance(v, Slice):
        return SliceIt(v)
    if isinstance(v, VecObj):
        return ListIt(v.e)
    if isinstance(v, Agg):
        if v.ty == "Range":
            return RangeIt(v)
        if v.ty == "RangeInclusive":
            return RangeIt(v, True)
        if v.ty == "RangeFrom":
            return RangeFromIt(v)
        if v.ty == "Option":
            return OnceIt(v.f if v.variant == 1 else [])
        if v.ty == "Result":
            return OnceIt(v.f if v.variant == 0 else [])
        if v.ty == "array":
            return ListIt(v.f)
    if hasattr(v, "iter_items"):
        return ListIt(v.iter_items(e, by_ref=False, owner=None))
    raise Unsupported(f"as_iter on {v!r}")


def drain(e, it):
    out = []
    while True:
        x = it.next(e)
        if x is END:
            return out
        out.append(x)


def opt(x):
    return none() if x is END else some(x)


# ---------------------------------------------------------------------- constructors
@model(r" as IntoIterator>::into_iter$")
def into_iter(e, c, a):
    v = a[0]
    if isinstance(v, Agg) and v.ty in ("Range", "RangeInclusive", "RangeFrom"):
        return v          # ranges are their own iterators (fields stay accessible)
    return as_iter(e, v)


@model(r"impl \[.*\]>::iter$|impl \[.*\]>::iter_mut$|^Vec::<.*>::iter$|^Vec::<.*>::iter_mut$|^VecDeque::<.*>::iter(_mut)?$")
def slice_iter(e, c, a):
    return SliceIt(e.as_slice(a[0]))


@model(r"<impl str>::bytes$|^str::bytes$")
def str_bytes(e, c, a):
    return SliceIt(e.as_slice(a[0]), by_value=True)


@model(r"<impl str>::chars$|^str::chars$")
def str_chars(e, c, a):
    sl = e.as_slice(a[0])
    l, lo, hi = e.seq_of(sl)
    for x in l[lo:hi]:
        if x.conc():
            if x.v >= 0x80:
                raise Unsupported("non-ASCII str::chars (model is ASCII-only)")
        else:
            e.assume(z3.ULT(x.z(), 0x80)); e.notes["assume_ascii_char"] = True
    return ListIt([e.cast("IntToInt", x, "char") for x in l[lo:hi]])


@model(r"<impl str>::char_indices$")
def str_char_indices(e, c, a):
    sl = e.as_slice(a[0]); l, lo, hi = e.seq_of(sl)
    return ListIt([Agg([usize(k - lo), e.cast("IntToInt", l[k], "char")], ty="tuple") for k in range(lo, hi)])


@model(r"impl \[.*\]>::chunks$|impl \[.*\]>::chunks_exact$|impl \[.*\]>::chunks_mut$")
def slice_chunks(e, c, a):
    n = a[1]
    if not n.conc():
        raise Unsupported("chunks with symbolic size")
    if n.v == 0:
        raise Panic("explicit_panic", "chunks", "chunk size must be non-zero")
    return Chunks(e.as_slice(a[0]), n.v, "exact" in c)


@model(r"impl \[.*\]>::windows$")
def slice_windows(e, c, a):
    if a[1].v == 0:
        raise Panic("explicit_panic", "windows", "window size must be non-zero")
    return Windows(e.as_slice(a[0]), a[1].v)


@model(r"^Vec::<.*>::drain::<|^VecDeque::<.*>::drain::<|^String::drain::<")
def vec_drain(e, c, a):
    from .models import _range_bounds
    v = e.load(a[0]); s, t = _range_bounds(e, a[1], len(v.e))
    if s > t or t > len(v.e):
        raise Panic("slice_index", "drain", "drain range out of bounds")
    items = v.e[s:t]; del v.e[s:t]
    return ListIt(items)


@model(r"^std::iter::once::<|^once::<|^std::iter::empty::<|^empty::<")
def iter_once(e, c, a):
    return OnceIt(a[:1])


@model(r"^std::iter::repeat::<|^repeat::<|^std::iter::repeat_n::<|^repeat_n::<")
def iter_repeat(e, c, a):
    if "repeat_n" in c:
        return ListIt([deep_clone(a[0]) for _ in range(a[1].v)])

    class Rep(It):
        def next(self, e2):
            return deep_clone(a[0])
    return Rep()


def _sep_pred(e, pat):
    pat = deref_all(e, pat) if isinstance(pat, Ref) else pat
    if isinstance(pat, Int):
        ch = pat
        return lambda e2, b: e2.binop("Eq", e2.cast("IntToInt", b, "char"), ch) if ch.w == 32 else e2.binop("Eq", b, ch)
    if isinstance(pat, (Slice, VecObj)):
        bs = e.bytes_of(pat)
        if len(bs) == 1:
            return lambda e2, b: e2.binop("Eq", b, Int(8, 0, bs[0]))
        raise Unsupported("split on multi-byte pattern")
    if isinstance(pat, Agg) and pat.ty == "array" and all(isinstance(x, Int) for x in pat.f):
        chars = list(pat.f)                      # [char; N] pattern: any of the characters

        def anyof(e2, b):
            r = False
            for ch in chars:
                r = b_or(r, e2.binop("Eq", e2.cast("IntToInt", b, "char"), ch) if ch.w == 32 else e2.binop("Eq", b, ch))
            return r
        return anyof
    if isinstance(pat, (Agg, FnItem)):
        return lambda e2, b: e2.call_closure(pat, [e2.cast("IntToInt", b, "char")])
    raise Unsupported(f"split pattern {pat!r}")


@model(r"<impl str>::split::<|<impl str>::split_whitespace$|<impl str>::split_ascii_whitespace$|<impl str>::lines$|impl \[u8\]>::split::<")
def str_split(e, c, a):
    sl = e.as_slice(a[0])
    if "whitespace" in c:
        def ws(e2, b):
            r = False
            for ch in (32, 9, 10, 11, 12, 13):
                r = b_or(r, e2.binop("Eq", b, Int(8, 0, ch)))
            return r
        return SplitIt(sl, ws, skip_empty=True)
    if c.endswith("lines"):
        return SplitIt(sl, lambda e2, b: e2.binop("Eq", b, Int(8, 0, 10)), lines=True)
    if "[u8]" in c:
        f = a[1]
        return SplitIt(sl, lambda e2, b: e2.call_closure(f, [Ref(Cell(b))]))
    return SplitIt(sl, _sep_pred(e, a[1]))


@model(r"<impl str>::(split_once|rsplit_once)::<")
def str_split_once(e, c, a):
    sl = e.as_slice(a[0]); l, lo, hi = e.seq_of(sl)
    pred = _sep_pred(e, a[1])
    rng = range(lo, hi) if "rsplit" not in c else range(hi - 1, lo - 1, -1)
    for k in rng:
        if e.branch(pred(e, l[k])):
            return some(Agg([Slice(sl.cell, sl.path, lo, k), Slice(sl.cell, sl.path, k + 1, hi)], ty="tuple"))
    return none()


@model(r"<impl str>::(trim|trim_end|trim_start|trim_end_matches|trim_start_matches|trim_matches|strip_prefix|strip_suffix)(::<.*>)?$")
def str_trim(e, c, a):
    m = re.search(r">::(\w+)(::<.*>)?$", c).group(1)
    sl = e.as_slice(a[0]); l, lo, hi = e.seq_of(sl)
    if m in ("strip_prefix", "strip_suffix"):
        pat = deref_all(e, a[1])
        if isinstance(pat, Int):
            pb = [Int(8, 0, pat.v)]
        else:
            pl, plo, phi = e.seq_of(pat); pb = pl[plo:phi]
        n = len(pb)
        if n > hi - lo:
            return none()
        base = lo if m == "strip_prefix" else hi - n
        r = True
        for k in range(n):
            r = b_and(r, e.binop("Eq", l[base + k], pb[k]))
        if not e.branch(r):
            return none()
        return some(Slice(sl.cell, sl.path, lo + n, hi) if m == "strip_prefix" else Slice(sl.cell, sl.path, lo, hi - n))
    if len(a) > 1 and isinstance(deref_all(e, a[1]) if isinstance(a[1], Ref) else a[1], (Slice, VecObj)) and \
            len(e.seq_of(deref_all(e, a[1]) if isinstance(a[1], Ref) else a[1])[0][slice(*e.seq_of(deref_all(e, a[1]) if isinstance(a[1], Ref) else a[1])[1:])]) > 1:
        # string pattern of several bytes: repeated removal of the whole pattern (std semantics of trim_*_matches(&str))
        pat = deref_all(e, a[1]) if isinstance(a[1], Ref) else a[1]
        pl, plo, phi = e.seq_of(pat); pb = pl[plo:phi]; n = len(pb)

        def at(k):
            r = True
            for j in range(n):
                r = b_and(r, e.binop("Eq", l[k + j], pb[j]))
            return r
        if m in ("trim_start_matches", "trim_matches"):
            while hi - lo >= n and e.branch(at(lo)):
                lo += n
        if m in ("trim_end_matches", "trim_matches"):
            while hi - lo >= n and e.branch(at(hi - n)):
                hi -= n
        return Slice(sl.cell, sl.path, lo, hi)
    if len(a) > 1:
        pred = _sep_pred(e, a[1])
    else:
        def pred(e2, b):
            r = False
            for ch in (32, 9, 10, 11, 12, 13):
                r = b_or(r, e2.binop("Eq", b, Int(8, 0, ch)))
            return r
    if m in ("trim", "trim_start", "trim_start_matches", "trim_matches"):
        while lo < hi and e.branch(pred(e, l[lo])):
            lo += 1
    if m in ("trim", "trim_end", "trim_end_matches", "trim_matches"):
        while hi > lo and e.branch(pred(e, l[hi - 1])):
            hi -= 1
    return Slice(sl.cell, sl.path, lo, hi)


@model(r"<impl str>::(find|rfind|contains)::<")
def str_find(e, c, a):
    m = re.search(r">::(\w+)::<", c).group(1)
    sl = e.as_slice(a[0]); l, lo, hi = e.seq_of(sl)
    pat = deref_all(e, a[1])
    if isinstance(pat, (Slice, VecObj)):
        pl, plo, phi = e.seq_of(pat); pb = pl[plo:phi]; n = len(pb)
        starts = range(lo, hi - n + 1) if m != "rfind" else range(hi - n, lo - 1, -1)
        for k in starts:
            r = True
            for j in range(n):
                r = b_and(r, e.binop("Eq", l[k + j], pb[j]))
            if e.branch(r):
                return True if m == "contains" else some(usize(k - lo))
        return False if m == "contains" else none()
    pred = _sep_pred(e, pat)
    rng = range(lo, hi) if m != "rfind" else range(hi - 1, lo - 1, -1)
    for k in rng:
        if e.branch(pred(e, l[k])):
            return True if m == "contains" else some(usize(k - lo))
    return False if m == "contains" else none()


@model(r"<impl str>::parse::<")
def str_parse(e, c, a):
    ty = re.search(r"parse::<(.*)>$", c).group(1)
    bs = e.bytes_of(a[0])
    try:
        if ty in INT_TY:
            v = int(bs.decode())
            w, s = INT_TY[ty]
            lo, hi = (-(1 << (w - 1)), (1 << (w - 1)) - 1) if s else (0, (1 << w) - 1)
            if not lo <= v <= hi or (not s and bs.startswith(b"-")):
                raise ValueError
            return ok(Int(w, s, v))
        if ty == "f64":
            return ok(float(bs.decode()))
    except ValueError:
        return err(Opaque("ParseError"))
    raise Unsupported("str::parse::<%s>" % ty)


@model(r"<impl str>::(to_uppercase|to_lowercase|to_ascii_uppercase|to_ascii_lowercase)$")
def str_case(e, c, a):
    l, lo, hi = e.seq_of(a[0]); up = "upper" in c
    out = []
    for x in l[lo:hi]:
        if not x.conc() and "ascii" not in c:
            e.assume(z3.ULT(x.z(), 0x80)); e.notes["assume_ascii_char"] = True
        isl = b_and(e.binop("Ge", x, Int(8, 0, 97 if up else 65)), e.binop("Le", x, Int(8, 0, 122 if up else 90)))
        out.append(ite_int(isl, e.binop("Sub" if up else "Add", x, Int(8, 0, 32)), x))
    return VecObj(out, "String")


@model(r"<impl str>::(eq_ignore_ascii_case|is_char_boundary|repeat)$")
def str_misc(e, c, a):
    if c.endswith("is_char_boundary"):
        return True
    if c.endswith("repeat"):
        l, lo, hi = e.seq_of(a[0]); return VecObj(l[lo:hi] * a[1].v, "String")
    raise Unsupported(c)


# ---------------------------------------------------------------------- adapters & consumers
def _clo_ret(e, f, args):
    return e.call_closure(f, args)


def iter_dispatch(e, c, a):
    m = re.search(r">::(\w+)(?:::<.*>)?$", c).group(1)
    recv = a[0]
    if m in ("next", "next_back", "nth", "by_ref", "peek", "size_hint", "len", "all", "any", "find", "position", "try_fold", "advance_by"):
        it = as_iter(e, recv)              # &mut receiver
    else:
        it = as_iter(e, recv)
    # adapters
    if m == "rev": return Rev(it)
    if m == "map": return Map(it, a[1])
    if m == "filter": return Filter(it, a[1])
    if m == "filter_map": return FilterMap(it, a[1])
    if m in ("take", "skip", "step_by"):
        n = a[1]
        if not n.conc():
            sz = it.size_hint(e)
            if sz is None:
                raise Unsupported(f"{m} with symbolic count on unsized iterator")
            nv = e.concretize(n, sz)
        else:
            nv = n.v
        if m == "step_by" and nv == 0:
            raise Panic("explicit_panic", "step_by", "step must be non-zero")
        return {"take": Take, "skip": Skip, "step_by": StepBy}[m](it, nv)
    if m == "zip": return Zip(it, as_iter(e, a[1]))
    if m == "enumerate": return Enumerate(it)
    if m == "chain": return Chain(it, as_iter(e, a[1]))
    if m in ("copied", "cloned"): return Copied(it)
    if m == "peekable": return Peekable(it)
    if m == "take_while": return TakeWhile(it, a[1])
    if m == "skip_while": return SkipWhile(it, a[1])
    if m == "flat_map": return FlatMap(it, a[1])
    if m == "flatten": return FlatMap(it, None)
    if m == "by_ref": return recv
    if m == "fuse": return it
    if m == "inspect": return it
    # consumers
    if m == "next": return opt(it.next(e))
    if m == "next_back": return opt(it.next_back(e))
    if m == "peek":
        x = it.peek(e); return none() if x is END else some(Ref(Cell(x)))
    if m == "nth":
        n = e.concretize(a[1], 1 << 16)
        x = END
        for _ in range(n + 1):
            x = it.next(e)
            if x is END:
                break
        return opt(x)
    if m == "last":
        x = END
        while True:
            y = it.next(e)
            if y is END:
                return opt(x)
            x = y
    if m in ("count", "len"):
        if m == "len":
            s = it.size_hint(e)
            if s is not None:
                return usize(s)
        return usize(len(drain(e, it)))
    if m == "size_hint":
        s = it.size_hint(e)
        if s is None:
            return Agg([usize(0), none()], ty="tuple")
        return Agg([usize(s), some(usize(s))], ty="tuple")
    if m == "all":
        while True:
            x = it.next(e)
            if x is END:
                return True
            if not e.branch(e.call_closure(a[1], [x])):
                return False
    if m == "any":
        while True:
            x = it.next(e)
            if x is END:
                return False
            if e.branch(e.call_closure(a[1], [x])):
                return True
    if m in ("find", "rfind"):
        while True:
            x = it.next(e) if m == "find" else it.next_back(e)
            if x is END:
                return none()
            if e.branch(e.call_closure(a[1], [Ref(Cell(x))])):
                return some(x)
    if m == "find_map":
        while True:
            x = it.next(e)
            if x is END:
                return none()
            r = e.call_closure(a[1], [x])
            if r.variant == 1:
                return r
    if m in ("position", "rposition"):
        k = 0
        if m == "rposition":
            items = drain(e, it)
            for k in range(len(items) - 1, -1, -1):
                if e.branch(e.call_closure(a[1], [items[k]])):
                    return some(usize(k))
            return none()
        while True:
            x = it.next(e)
            if x is END:
                return none()
            if e.branch(e.call_closure(a[1], [x])):
                return some(usize(k))
            k += 1
    if m == "for_each":
        while True:
            x = it.next(e)
            if x is END:
                return UNIT
            e.call_closure(a[1], [x])
    if m == "fold":
        acc = a[1]
        while True:
            x = it.next(e)
            if x is END:
                return acc
            acc = e.call_closure(a[2], [acc, x])
    if m in ("sum", "product"):
        ty = re.search(r"::(?:sum|product)::<(.*)>$", c).group(1)
        items = [deref_all(e, x) for x in drain(e, it)]
        if ty == "f64":
            r = 0.0 if m == "sum" else 1.0
            for x in items:
                r = r + x if m == "sum" else r * x
            return r
        acc = Int(*INT_TY[ty], 0 if m == "sum" else 1)
        for x in items:
            ck = e.checked("Add" if m == "sum" else "Mul", acc, x)
            if e.branch(ck.f[1]):
                raise Panic("overflow", "Iterator::" + m, "attempt to add with overflow")
            acc = ck.f[0]
        return acc
    if m in ("max", "min", "max_by_key", "min_by_key", "max_by", "min_by"):
        items = drain(e, it)
        if not items:
            return none()
        if m in ("max", "min"):
            vals = [deref_all(e, x) for x in items]
            if all(isinstance(x, Int) for x in vals):
                # scalar extremum as an If-term (no fork); a reference result points at a fresh cell holding the value
                best = vals[0]
                for x in vals[1:]:
                    c_ = e.binop("Ge" if m == "max" else "Lt", x, best)
                    best = ite_int(c_, x, best)
                return some(Ref(Cell(best)) if isinstance(items[0], Ref) else best)
        if m.endswith("by_key"):
            keys = [e.call_closure(a[1], [Ref(Cell(x))]) for x in items]
        else:
            keys = items
        best = 0
        for k in range(1, len(items)):
            if m.endswith("_by"):
                r = e.call_closure(a[1], [Ref(Cell(items[k])), Ref(Cell(items[best]))]).variant
            else:
                r = values_cmp(e, keys[k], keys[best])
            # std: max returns the last maximal element, min the first minimal
            if (m.startswith("max") and r >= 0) or (m.startswith("min") and r < 0):
                best = k
        return some(items[best])
    if m == "collect":
        ty = re.search(r"::collect::<(.*)>$", c).group(1)
        return collect_into(e, it, ty)
    if m == "unzip":
        xs, ys = [], []
        for t in drain(e, it):
            xs.append(t.f[0]); ys.append(t.f[1])
        return Agg([VecObj(xs), VecObj(ys)], ty="tuple")
    if m == "partition":
        xs, ys = [], []
        for x in drain(e, it):
            (xs if e.branch(e.call_closure(a[1], [Ref(Cell(x))])) else ys).append(x)
        return Agg([VecObj(xs), VecObj(ys)], ty="tuple")
    if m in ("eq", "ne"):
        xs, ys = drain(e, it), drain(e, as_iter(e, a[1]))
        r = values_eq(e, VecObj(xs), VecObj(ys))
        return r if m == "eq" else b_not(r)
    if m == "cmp":
        return ordering(values_cmp(e, VecObj(drain(e, it)), VecObj(drain(e, as_iter(e, a[1])))))
    if m == "try_fold" or m == "try_for_each":
        raise Unsupported("Iterator::" + m)
    raise Unsupported("Iterator method " + m + " in " + c)


model(r" as (Iterator|DoubleEndedIterator|ExactSizeIterator)>::\w+(::<.*>)?$", "iterator")(iter_dispatch)


@model(r"^Peekable::<.*>::(peek|next_if|next_if_eq)")
def peekable_peek(e, c, a):
    it = as_iter(e, a[0])
    x = it.peek(e)
    if c.endswith("peek"):
        return none() if x is END else some(Ref(Cell(x)))
    raise Unsupported(c)


def collect_into(e, it, ty):
    ty = ty.strip()
    if ty.startswith("Result<") or ty.startswith("std::result::Result<"):
        inner = split_top(ty[ty.index("<") + 1:-1])[0]
        out = []
        while True:
            x = it.next(e)
            if x is END:
                break
            if x.variant == 1:
                return x
            out.append(x.f[0])
        return ok(collect_into(e, ListIt(out), inner))
    if ty.startswith("Option<"):
        inner = split_top(ty[ty.index("<") + 1:-1])[0]
        out = []
        while True:
            x = it.next(e)
            if x is END:
                break
            if x.variant == 0:
                return none()
            out.append(x.f[0])
        return some(collect_into(e, ListIt(out), inner))
    items = drain(e, it)
    base = ty.split("<")[0].split("::")[-1]
    if base in ("Vec", "VecDeque", "Box"):
        return VecObj(items)
    if base == "String":
        out = []
        for x in items:
            x = deref_all(e, x)
            if isinstance(x, Int):
                if x.conc() and x.v >= 0x80:
                    out.extend(Int(8, 0, b) for b in chr(x.v).encode())
                else:
                    if not x.conc():
                        e.assume(z3.ULT(x.z(), 0x80)); e.notes["assume_ascii_char"] = True
                    out.append(e.cast("IntToInt", x, "u8"))
            else:
                l, lo, hi = e.seq_of(x); out.extend(l[lo:hi])
        return VecObj(out, "String")
    from . import models_coll
    return models_coll.collect_collection(e, base, items, ty)


@model(r"<Vec<.*> as Extend<.*>>::extend::<|<String as Extend<.*>>::extend::<|<VecDeque<.*> as Extend<.*>>::extend::<|^Vec::<.*>::extend::<")
def vec_extend(e, c, a):
    v = e.load(a[0]); it = as_iter(e, a[1])
    for x in drain(e, it):
        if "Extend<&" in c:
            x = deep_clone(e.load(x))
        if v.kind == "String" and isinstance(x, Int) and x.w == 32:
            x = e.cast("IntToInt", x, "u8")
        v.e.append(x)
    return UNIT


@model(r"<Vec<.*> as FromIterator<.*>>::from_iter::<|<String as FromIterator<.*>>::from_iter::<")
def vec_from_iter(e, c, a):
    return collect_into(e, as_iter(e, a[0]), "String" if c.startswith("<String") else "Vec<_>")


@model(r"impl \[.*\]>::sort(_unstable)?$|impl \[.*\]>::sort(_unstable)?_by::<|impl \[.*\]>::sort(_unstable)?_by_key::<|impl \[.*\]>::sort_by_cached_key::<|radix_sort_unstable|RadixSort")
def slice_sort(e, c, a):
    """Specification-level sort: the result is the sorted permutation (insertion by the real comparison); stable sorts keep
    the order of equal elements, unstable sorts leave it to an engine choice when the elements are distinguishable."""
    l, lo, hi = e.seq_of(a[0])
    items = l[lo:hi]
    if "by_key" in c or "cached_key" in c:
        keys = [e.call_closure(a[1], [Ref(Cell(x))]) for x in items]
        cmpf = lambda i, j: values_cmp(e, keys[i], keys[j])
    elif "_by::<" in c:
        cmpf = lambda i, j: e.call_closure(a[1], [Ref(Cell(items[i])), Ref(Cell(items[j]))]).variant
    else:
        cmpf = lambda i, j: values_cmp(e, items[i], items[j])
    order = []
    for i in range(len(items)):
        pos = len(order)
        while pos > 0 and cmpf(order[pos - 1], i) > 0:
            pos -= 1
        order.insert(pos, i)
    if "unstable" in c and "radix" not in c.lower():
        # an unstable sort leaves elements that compare equal in an UNSPECIFIED order: when such elements are distinguishable
        # (satellite data), their order is an engine choice (identity / reversed / rotated), not the stable one
        out, i = [], 0
        while i < len(order):
            j = i + 1
            while j < len(order) and cmpf(order[j - 1], order[j]) == 0:
                j += 1
            run = order[i:j]
            if len(run) > 1 and not all(e.branch(values_eq(e, items[run[0]], items[x])) for x in run[1:]):
                alts = [run, run[::-1]] + ([run[1:] + run[:1]] if len(run) > 2 else [])
                run = alts[e.choose(len(alts))]
                e.notes["sort_unstable"] = "order of distinguishable equal-key elements is a free choice (identity, reversed, rotated)"
            out += run; i = j
        order = out
    l[lo:hi] = [items[i] for i in order]
    return UNIT


@model(r"impl \[.*\]>::binary_search(_by|_by_key)?(::<.*>)?$")
def slice_binary_search(e, c, a):
    l, lo, hi = e.seq_of(a[0])
    for k in range(lo, hi):
        if "_by_key" in c:
            r = values_cmp(e, e.call_closure(a[2], [Ref(Cell(l[k]))]), a[1])
        elif "_by" in c:
            r = e.call_closure(a[1], [Ref(Cell(l[k]))]).variant
        else:
            r = values_cmp(e, l[k], a[1])
        if r == 0:
            return ok(usize(k - lo))
        if r > 0:
            return err(usize(k - lo))
    return err(usize(hi - lo))


@model(r"^Vec::<.*>::dedup$|^Vec::<.*>::dedup_by_key::<|^Vec::<.*>::retain::<|^Vec::<.*>::retain_mut::<")
def vec_dedup_retain(e, c, a):
    v = e.load(a[0])
    if "retain" in c:
        v.e[:] = [x for x in v.e if e.branch(e.call_closure(a[1], [Ref(Cell(x))]))]
        return UNIT
    out = []
    for x in v.e:
        if out:
            kx = e.call_closure(a[1], [Ref(Cell(x))]) if "by_key" in c else x
            ky = e.call_closure(a[1], [Ref(Cell(out[-1]))]) if "by_key" in c else out[-1]
            if e.branch(values_eq(e, kx, ky)):
                continue
        out.append(x)
    v.e[:] = out
    return UNIT


@model(r"impl \[.*\]>::iter\(\)|impl \[.*\]>::(to_ascii_uppercase|to_ascii_lowercase|make_ascii_uppercase)$")
def slice_ascii(e, c, a):
    raise Unsupported(c)


# ---------------------------------------------------------------------- closures called through Fn traits
@model(r" as Fn(Mut|Once)?<\(.*\)>>::call(_mut|_once)?$")
def fn_call(e, c, a):
    args = a[1].f if isinstance(a[1], Agg) else [a[1]]
    return e.call_closure(a[0], list(args))


# ---------------------------------------------------------------------- rayon: order-preserving sequential model
@model(r" as (rayon::iter::)?IntoParallelRefIterator<'_>>::par_iter$| as (rayon::iter::)?IntoParallelRefMutIterator<'_>>::par_iter_mut$")
def rayon_par_iter(e, c, a):
    return SliceIt(e.as_slice(a[0]))


@model(r" as (rayon::iter::)?IntoParallelIterator>::into_par_iter$")
def rayon_into_par_iter(e, c, a):
    return as_iter(e, a[0])


model(r" as (rayon::iter::)?(ParallelIterator|IndexedParallelIterator)>::\w+(::<.*>)?$", "rayon_iterator")(iter_dispatch)
