"""Path-wise symbolic interpreter for rustc MIR text (engine E2)."""
import re, time
import z3
from .values import *
from .values import mk, mkbool, zbool, b_not, b_and, b_or, copy_val
from .mirparse import Program, Func, split_top, match_close, strip_generics, type_base
from .compile import Compiler

PANIC_FNS = re.compile(r"core::panicking::|std::rt::begin_panic|panic_fmt|panic_display|unwrap_failed|expect_failed|"
                       r"std::process::abort|core::option::unwrap_failed|core::result::unwrap_failed|slice_index_fail|"
                       r"slice_start_index_len_fail|slice_end_index_len_fail|core::str::slice_error_fail|handle_alloc_error|capacity_overflow")


class Frame:
    __slots__ = ("loc", "gen", "f")

    def __init__(self, f):
        self.loc, self.gen, self.f = {}, {}, f


class Engine:
    def __init__(self, program, max_steps=2_000_000, query_timeout_ms=60_000):
        self.p = program
        self.solver = z3.Solver()
        self.solver.set("timeout", query_timeout_ms)
        self.max_steps = max_steps
        self.models_used = {}
        self.funcs_used = {}
        self.stubs = []                 # [(compiled regex, fn)]
        self.call_cache = {}
        self.stats = {"queries": 0, "solver_s": 0.0, "steps": 0, "branches": 0, "paths": 0}
        self.concrete = None            # dict of concrete inputs (differential validation mode)
        self.reset_path([])
        from . import models
        self.MODELS = models.MODELS

    # ================================================================== path / solver management
    def reset_path(self, prefix):
        self.prefix, self.trace, self.work = list(prefix), [], []
        self.model = None
        self.steps = 0
        self.inputs = {}
        self.witnesses = set()
        self.notes = {}
        self.fresh = 0
        self.fs = None
        self.stdout = None
        self.sched = None
        self.h = {}
        self.alloc_limit = None         # per-path harness setting (C14): must not leak into the next path / instance

    def _check(self, *extra):
        self.stats["queries"] += 1
        t = time.time()
        r = self.solver.check(*extra)
        self.stats["solver_s"] += time.time() - t
        if r == z3.unknown:
            raise Unsupported("solver returned unknown: " + self.solver.reason_unknown())
        return r == z3.sat

    def _ensure_model(self):
        if self.model is None:
            if not self._check():
                raise Infeasible()
            self.model = self.solver.model()
        return self.model

    def branch(self, cond):
        """Decide a (possibly symbolic) condition on this path; forks by recording the alternative."""
        if isinstance(cond, bool):
            return cond
        cond = mkbool(cond)
        if isinstance(cond, bool):
            return cond
        i = len(self.trace)
        self.stats["branches"] += 1
        if i < len(self.prefix):
            d = bool(self.prefix[i])
            self.model = None
        else:
            m = self._ensure_model()
            d = z3.is_true(m.eval(cond, model_completion=True))
            other = z3.Not(cond) if d else cond
            if self._check(other):
                self.work.append(self.trace + [int(not d)])
        self.trace.append(int(d))
        self.solver.add(cond if d else z3.Not(cond))
        return d

    def choose(self, n, name=None):
        """Unconstrained n-way choice (input shape, scheduler decision)."""
        if self.concrete is not None and name is not None and name in self.concrete:
            return self.concrete[name]
        if n <= 1:
            if name is not None:
                self.inputs[name] = 0
            return 0
        i = len(self.trace)
        if i < len(self.prefix):
            d = self.prefix[i]
        else:
            d = 0
            for j in range(n - 1, 0, -1):
                self.work.append(self.trace + [j])
        self.trace.append(d)
        if name is not None:
            self.inputs[name] = d
        return d

    def assume(self, cond):
        cond = mkbool(cond) if not isinstance(cond, bool) else cond
        if isinstance(cond, bool):
            if not cond:
                raise Infeasible()
            return
        self.solver.add(cond)
        if self.model is not None and not z3.is_true(self.model.eval(cond, model_completion=True)):
            self.model = None

    def prove(self, cond, role, desc=""):
        """Harness assertion: must hold for every input on this path."""
        if isinstance(cond, bool):
            if not cond:
                self._ensure_model()
                raise PropertyViolation(role, desc)
            return
        cond = mkbool(cond)
        if isinstance(cond, bool):
            return self.prove(cond, role, desc)
        if self._check(z3.Not(cond)):
            self.model = self.solver.model()
            self.solver.add(z3.Not(cond))
            raise PropertyViolation(role, desc)

    def feasible(self, cond):
        if isinstance(cond, bool):
            return cond
        return self._check(cond)

    def concretize(self, x, hi, lo=0):
        """Fork over the values lo..hi of a symbolic integer (bounded, deterministic); values above hi get hi+1.
        Candidates come from the value's finite value set / interval, so impossible values cost nothing."""
        if x.conc():
            return x.v
        if x.vals is not None:
            inr = sorted(v for v in x.vals if lo <= v <= hi)
            out = any(not (lo <= v <= hi) for v in x.vals)
            for n_, v in enumerate(inr):
                if n_ == len(inr) - 1 and not out:
                    self.assume(x.z() == z3.BitVecVal(v, x.w)) if False else None
                    return v
                if self.branch(x.z() == z3.BitVecVal(v, x.w)):
                    return v
            return hi + 1
        lo2, hi2 = max(lo, x.lo), min(hi, x.hi)
        for v in range(lo2, hi2 + 1):
            if v == hi2 and x.hi <= hi and x.lo >= lo:
                return v
            if self.branch(x.z() == z3.BitVecVal(v, x.w)):
                return v
        return hi + 1

    # ---- symbolic inputs
    def sym_int(self, name, w, signed=False, lo=None, hi=None, among=None):
        if self.concrete is not None:
            v = Int(w, int(signed), int(self.concrete[name]))
        else:
            z = z3.BitVec(name, w)
            blo = bhi = None
            if not signed:
                if among is not None:
                    blo, bhi = min(among), max(among)
                else:
                    blo, bhi = lo, hi
            v = Int(w, int(signed), z, blo, bhi)
            if among is not None:
                self.solver.add(z3.Or([z == a for a in among]))
            if lo is not None:
                self.solver.add((z >= lo) if signed else z3.UGE(z, lo))
            if hi is not None:
                self.solver.add((z <= hi) if signed else z3.ULE(z, hi))
        self.inputs[name] = v
        return v

    def sym_bool(self, name):
        if self.concrete is not None:
            v = bool(self.concrete[name])
        else:
            v = z3.Bool(name)
        self.inputs[name] = v
        return v

    def sym_bytes(self, name, n, among=None, lo=None, hi=None):
        if self.concrete is not None:
            vals = [Int(8, 0, int(x)) for x in self.concrete[name]]
            assert len(vals) == n, (name, n, vals)
        else:
            vals = []
            for i in range(n):
                z = z3.BitVec(f"{name}_{i}", 8)
                if among is not None:
                    self.solver.add(z3.Or([z == a for a in among]))
                if lo is not None:
                    self.solver.add(z3.UGE(z, lo))
                if hi is not None:
                    self.solver.add(z3.ULE(z, hi))
                vals.append(Int(8, 0, z, min(among) if among is not None else lo, max(among) if among is not None else hi))
        self.inputs[name] = vals
        return vals

    def concretize_inputs(self):
        """Evaluate every registered input under the current model."""
        m = self.model if self.model is not None else (self.solver.model() if self._check() else None)

        def ev(v):
            if isinstance(v, Int):
                if v.conc():
                    return v.v if not v.s else v.sval()
                r = m.eval(v.v, model_completion=True).as_long()
                return r - (1 << v.w) if v.s and r >> (v.w - 1) else r
            if isinstance(v, bool):
                return v
            if z3.is_expr(v):
                return z3.is_true(m.eval(v, model_completion=True))
            if isinstance(v, (list, tuple)):
                return [ev(x) for x in v]
            if isinstance(v, dict):
                return {k: ev(x) for k, x in v.items()}
            if callable(v):
                return v(self, m)
            return v
        return {k: ev(v) for k, v in self.inputs.items()}

    def eval_concrete(self, v):
        """Concrete python value of an engine value under the current model (for reports)."""
        m = self._ensure_model()
        if isinstance(v, Int):
            return v.sval() if v.conc() else m.eval(v.v, model_completion=True).as_long()
        if isinstance(v, bool):
            return v
        if z3.is_expr(v):
            return z3.is_true(m.eval(v, model_completion=True))
        if isinstance(v, VecObj):
            return [self.eval_concrete(x) for x in v.e]
        if isinstance(v, Agg):
            return {"variant": v.variant, "f": [self.eval_concrete(x) for x in v.f]} if v.variant is not None else [self.eval_concrete(x) for x in v.f]
        if isinstance(v, (list, tuple)):
            return [self.eval_concrete(x) for x in v]
        return repr(v)

    def witness(self, tag):
        self.witnesses.add(tag)

    # ================================================================== memory
    def resolve(self, fr, local, proj):
        cell, path = fr.loc[local], ()
        for pr in proj:
            k = pr[0]
            if k == "field":
                path = path + (("f", pr[1]),)
            elif k == "deref":
                v = self.read(cell, path)
                if isinstance(v, Ref):
                    cell, path = v.cell, v.path
                elif isinstance(v, Slice):
                    cell, path = v.cell, v.path + (("w", v.lo, v.hi),)
                elif hasattr(v, "deref_target"):
                    cell, path = v.deref_target(self)
                else:
                    raise Unsupported(f"deref of {v!r} in {fr.f.name}")
            elif k == "idx":
                iv = fr.loc[pr[1]].v
                path = path + (("i", iv.v if iv.conc() else iv),)
            elif k == "cidx":
                path = path + (("c", pr[1], pr[2]),)
            elif k == "down":
                pass
            else:
                raise Unsupported("projection " + str(pr))
        return cell, path

    def _seq(self, v):
        if isinstance(v, VecObj):
            return v.e
        if isinstance(v, Agg):
            return v.f
        raise Unsupported(f"indexing into {v!r}")

    def read(self, cell, path):
        v = cell.v; off = 0; hi = None
        for p in path:
            k = p[0]
            if k == "f":
                if isinstance(v, Ref):       # field of a box/pointer wrapper that was not typed as transparent
                    continue
                v = v.f[p[1]]
            elif k == "w":
                off += p[1]; hi = off + (p[2] - p[1])
            elif k == "i" or k == "c":
                seq = self._seq(v)
                if k == "c":
                    end = hi if hi is not None else len(seq)
                    i = (end - p[1]) if p[2] else off + p[1]
                    v = seq[i]
                else:
                    i = p[1]
                    if isinstance(i, int):
                        if off + i >= len(seq):
                            raise Panic("index_oob", "read", f"index {i} len {len(seq) - off}")
                        v = seq[off + i]
                    else:
                        v = self.sym_index(seq, off, hi if hi is not None else len(seq), i)
                off, hi = 0, None
        return v

    def sym_index(self, seq, lo, hi, i):
        """seq[lo + i] for symbolic i (in-bounds already established by the MIR assert / model check)."""
        if hi - lo == 0:
            raise Panic("index_oob", "read", "index into empty sequence")
        e0 = seq[lo]
        if all(isinstance(e, Int) for e in seq[lo:hi]):
            res = seq[hi - 1].z()
            for k in range(hi - 2, lo - 1, -1):
                res = z3.If(i.z() == (k - lo), seq[k].z(), res)
            sets = [x.valset() for x in seq[lo:hi]]
            vs = frozenset().union(*sets) if all(t is not None for t in sets) else None
            if vs is not None and len(vs) > 96:
                vs = None
            return mk(e0.w, e0.s, res, min(x.lo for x in seq[lo:hi]), max(x.hi for x in seq[lo:hi]), vs)
        if all(isinstance(e, bool) or z3.is_expr(e) for e in seq[lo:hi]):
            res = zbool(seq[hi - 1])
            for k in range(hi - 2, lo - 1, -1):
                res = z3.If(i.z() == (k - lo), zbool(seq[k]), res)
            return mkbool(res)
        k = self.concretize(i, hi - lo - 1)
        return seq[lo + k]

    def write(self, cell, path, val):
        if not path:
            cell.v = val; return
        v = cell.v; off = 0; hi = None
        for p in path[:-1]:
            k = p[0]
            if k == "f":
                if isinstance(v, Ref):
                    continue
                v = v.f[p[1]]
            elif k == "w":
                off += p[1]; hi = off + (p[2] - p[1])
            elif k in ("i", "c"):
                seq = self._seq(v)
                if k == "c":
                    end = hi if hi is not None else len(seq)
                    v = seq[(end - p[1]) if p[2] else off + p[1]]
                else:
                    i = p[1]
                    if not isinstance(i, int):
                        i = self.concretize(i, (hi if hi is not None else len(seq)) - off - 1)
                    v = seq[off + i]
                off, hi = 0, None
        p = path[-1]; k = p[0]
        if k == "f":
            if isinstance(v, Ref):
                self.write(v.cell, v.path, val); return
            v.f[p[1]] = val
        elif k == "i":
            seq = self._seq(v); i = p[1]
            end = hi if hi is not None else len(seq)
            if isinstance(i, int):
                if off + i >= end:
                    raise Panic("index_oob", "write", f"index {i} len {end - off}")
                seq[off + i] = val
            elif isinstance(val, Int) and all(isinstance(e, Int) for e in seq[off:end]):
                for j in range(off, end):
                    seq[j] = mk(val.w, val.s, z3.If(i.z() == (j - off), val.z(), seq[j].z()), min(val.lo, seq[j].lo), max(val.hi, seq[j].hi))
            else:
                j = self.concretize(i, end - off - 1)
                seq[off + j] = val
        elif k == "c":
            seq = self._seq(v); end = hi if hi is not None else len(seq)
            seq[(end - p[1]) if p[2] else off + p[1]] = val
        elif k == "w":
            raise Unsupported("write of unsized place")
        else:
            raise Unsupported("write path " + str(path))

    def mkref(self, cell, path):
        if path and path[-1][0] == "w":
            return Slice(cell, path[:-1], path[-1][1], path[-1][2])
        return Ref(cell, path)

    def load(self, r):
        """Value a Ref points to."""
        return self.read(r.cell, r.path)

    def store(self, r, v):
        self.write(r.cell, r.path, v)

    def seq_of(self, v):
        """(python list, lo, hi) for a Slice, or a Ref to a Vec / array / String, or those values themselves."""
        for _ in range(8):
            if isinstance(v, Slice):
                t = self.read(v.cell, v.path)
                return self._seq(t), v.lo, v.hi
            if isinstance(v, Ref):
                t = self.read(v.cell, v.path)
                if isinstance(t, (Slice, Ref)):
                    v = t; continue
                l = self._seq(t); return l, 0, len(l)
            if isinstance(v, VecObj):
                return v.e, 0, len(v.e)
            if isinstance(v, Agg):
                return v.f, 0, len(v.f)
            break
        raise Unsupported(f"seq_of {v!r}")

    def as_slice(self, v):
        """Normalise any sequence handle to a Slice."""
        if isinstance(v, Slice):
            return v
        if isinstance(v, Ref):
            t = self.read(v.cell, v.path)
            if isinstance(t, Slice):
                return t
            if isinstance(t, Ref):
                return self.as_slice(t)
            return Slice(v.cell, v.path, 0, len(self._seq(t)))
        if isinstance(v, (VecObj, Agg)):
            return Slice(Cell(v), (), 0, len(self._seq(v)))
        raise Unsupported(f"as_slice {v!r}")

    def elem_ref(self, sl, k):
        return Ref(sl.cell, sl.path + (("i", sl.lo + k),))

    def new_bytes(self, data, kind="Vec"):
        return VecObj([Int(8, 0, b) if isinstance(b, int) else b for b in data], kind)

    def str_slice(self, b):
        return Slice(Cell(self.new_bytes(b, "str")), (), 0, len(b))

    def bytes_of(self, v):
        """Concrete python bytes of a string-like value (names, paths): requires concrete content."""
        l, lo, hi = self.seq_of(v)
        out = []
        for x in l[lo:hi]:
            if not x.conc():
                raise Unsupported("symbolic string where a concrete one is required")
            out.append(x.v)
        return bytes(out)

    # ================================================================== constants
    def const_value(self, txt, fr):
        if txt == "()":
            return UNIT
        if txt == "true":
            return True
        if txt == "false":
            return False
        m = re.match(r"^(-?\d+)_([iu](?:8|16|32|64|128|size))$", txt)
        if m:
            w, s = INT_TY[m.group(2)]; return Int(w, s, int(m.group(1)))
        if txt.startswith('"'):
            return self.str_slice(_unescape(txt[1:txt.rindex('"')]))
        if txt.startswith('b"'):
            b = _unescape(txt[2:txt.rindex('"')])
            return Ref(Cell(Agg([Int(8, 0, x) for x in b], ty="array")))
        m = re.match(r"^'(.*)'$", txt)
        if m:
            return Int(32, 0, ord(_unescape(m.group(1)).decode("utf-8")))
        m = re.match(r"^(-?[\d.]+(?:[eE][+-]?\d+)?)f(32|64)$", txt)
        if m:
            return float(m.group(1))
        if txt in fr.gen:
            return fr.gen[txt]
        t2 = re.sub(r"^(?:core|std)::num::<impl ([iu]\w+)>::", r"\1::", txt)
        m = re.match(r"^(?:std::|core::)?([iuf](?:8|16|32|64|128|size))::(MAX|MIN|BITS|EPSILON)$", t2)
        if m and m.group(1)[0] != "f":
            w, s = INT_TY[m.group(1)]
            if m.group(2) == "BITS":
                return Int(32, 0, w)
            v = ((1 << (w - 1)) - 1 if s else (1 << w) - 1) if m.group(2) == "MAX" else (-(1 << (w - 1)) if s else 0)
            return Int(w, s, v)
        if m and m.group(2) == "MAX":
            return 1.7976931348623157e308
        if txt.startswith("{closure@"):
            return Agg([], ty=txt)
        # named constants / promoteds of the crates
        pm = re.search(r"::(promoted\[\d+\])$", txt)
        if pm:
            val = self.p.consts.get((fr.f.crate, fr.f.name + "::" + pm.group(1)))
            if val is not None:
                return self.run_func(val[1], []) if val[0] == "body" else self.const_value(val[2], fr)
        key = re.sub(r"<impl at [^>]*>", "<impl>", txt)
        cands = self.p.const_by_last.get(key if "promoted[" in key else strip_generics(key).split("::")[-1], [])
        if "promoted[" in key:
            cands = [c for c in cands if re.sub(r"<impl at [^>]*>", "<impl>", c[1]) == key] or \
                    [c for c in self.p.const_by_last.get(key, [])]
            if not cands:      # promoted of the current function, printed with the full path
                for (cr, nm), val in self.p.consts.items():
                    if re.sub(r"<impl at [^>]*>", "<impl>", nm) == key:
                        cands.append((cr, nm, val))
        else:
            full = strip_generics(key)
            exact = [c for c in cands if re.sub(r"<impl at [^>]*>", "<impl>", c[1]) == full]
            sfx = [c for c in cands if full.endswith(re.sub(r"<impl at [^>]*>::", "", c[1]).split("::")[-1])]
            cands = exact or [c for c in sfx if c[0] == fr.f.crate] or sfx
        if cands:
            cr, nm, val = cands[0]
            if val[0] == "lit":
                return self.const_value(val[2], fr)
            return self.run_func(val[1], [])
        # function items / paths used as values
        if re.match(r"^[\w:<>{}@&'\[\], ./#()*+=;-]+$", txt):
            return FnItem(txt)
        raise Unsupported("const " + txt)

    # ================================================================== operands / rvalues
    def operand(self, fr, op):
        k = op[0]
        if k == "copy":
            if not op[2]:
                return copy_val(fr.loc[op[1]].v)
            c, p = self.resolve(fr, op[1], op[2]); return copy_val(self.read(c, p))
        if k == "move":
            if not op[2]:
                return fr.loc[op[1]].v
            c, p = self.resolve(fr, op[1], op[2]); return self.read(c, p)
        cache = op[2]
        if cache and not fr.gen:
            return copy_val(cache[0])
        v = self.const_value(op[1], fr)
        if not fr.gen and isinstance(v, (Int, bool, float)):
            cache.append(v)
        return v

    def binop(self, op, a, b):
        if isinstance(a, float) or isinstance(b, float):
            return _FLOAT_OPS[op](float(a), float(b))
        if not isinstance(a, Int):
            if isinstance(a, Agg) and not a.f and isinstance(b, Agg):     # unit-like enums compare by variant
                if op == "Eq":
                    return a.variant == b.variant
                if op == "Ne":
                    return a.variant != b.variant
            if isinstance(a, (Ref, Slice)) and op in ("Eq", "Ne"):
                same = isinstance(b, type(a)) and a.cell is b.cell and a.path == b.path
                return same if op == "Eq" else not same
            if op in ("BitAnd",):
                return b_and(a, b)
            if op in ("BitOr",):
                return b_or(a, b)
            if op in ("Eq", "Ne", "BitXor"):
                if isinstance(a, bool) and isinstance(b, bool):
                    return (a == b) if op == "Eq" else (a != b)
                r = zbool(a) == zbool(b)
                return mkbool(r if op == "Eq" else z3.Not(r))
            if op in ("Lt", "Le", "Gt", "Ge"):
                ia = Int(1, 0, int(a)) if isinstance(a, bool) else Int(1, 0, z3.If(a, z3.BitVecVal(1, 1), z3.BitVecVal(0, 1)))
                ib = Int(1, 0, int(b)) if isinstance(b, bool) else Int(1, 0, z3.If(b, z3.BitVecVal(1, 1), z3.BitVecVal(0, 1)))
                return self.binop(op, ia, ib)
            raise Unsupported(f"binop {op} on {a!r}")
        w, s = a.w, a.s
        if isinstance(a.v, int) and isinstance(b.v, int):
            x, y = a.sval(), b.sval()
            if op == "Add": return Int(w, s, x + y)
            if op == "Sub": return Int(w, s, x - y)
            if op == "Mul": return Int(w, s, x * y)
            if op in ("Div", "Rem"):
                if y == 0:
                    raise Panic("div_by_zero", "binop", "division by zero")
                q = abs(x) // abs(y) * (1 if (x >= 0) == (y >= 0) else -1)
                return Int(w, s, q if op == "Div" else x - y * q)
            if op == "BitAnd": return Int(w, s, a.v & b.v)
            if op == "BitOr": return Int(w, s, a.v | b.v)
            if op == "BitXor": return Int(w, s, a.v ^ b.v)
            if op == "Shl": return Int(w, s, a.v << (b.v % w))
            if op == "Shr": return Int(w, s, x >> (b.v % w))
            if op == "Eq": return x == y
            if op == "Ne": return x != y
            if op == "Lt": return x < y
            if op == "Le": return x <= y
            if op == "Gt": return x > y
            if op == "Ge": return x >= y
            if op == "Cmp": return Agg([], variant=(x > y) - (x < y), ty="Ordering")
            raise Unsupported("binop " + op)
        M = (1 << w) - 1
        alo, ahi, blo, bhi = a.lo, a.hi, b.lo, b.hi
        # ---- finite value sets: evaluate the operation on every candidate
        vs = None
        av, bv = a.valset(), b.valset()
        if av is not None and bv is not None and len(av) * len(bv) <= 96 and op != "Cmp":
            try:
                res = [self.binop(op, Int(w, s, x_), Int(b.w, b.s, y_)) for x_ in av for y_ in bv]
            except Panic:
                res = None
            if res is not None:
                if isinstance(res[0], bool):
                    if all(res): return True
                    if not any(res): return False
                else:
                    vs = frozenset(r_.v for r_ in res)
        # ---- comparisons decided by intervals (no term, no query)
        if op in ("Eq", "Ne", "Lt", "Le", "Gt", "Ge"):
            usable = (not s) or (a.nonneg() and b.nonneg())
            if usable:
                if op == "Lt":
                    if ahi < blo: return True
                    if alo >= bhi: return False
                elif op == "Le":
                    if ahi <= blo: return True
                    if alo > bhi: return False
                elif op == "Gt":
                    if alo > bhi: return True
                    if ahi <= blo: return False
                elif op == "Ge":
                    if alo >= bhi: return True
                    if ahi < blo: return False
            if ahi < blo or bhi < alo:
                if op == "Eq": return False
                if op == "Ne": return True
        x, y = a.z(), b.z()
        lo = hi = None
        if op in ("Shl", "Shr"):
            if b.w != w:
                y = z3.ZeroExt(w - b.w, y) if b.w < w else z3.Extract(w - 1, 0, y)
            y = y & (w - 1)
            if b.conc():
                sh = b.v % w
                if op == "Shl" and (ahi << sh) <= M:
                    lo, hi = alo << sh, ahi << sh
                elif op == "Shr" and (not s or a.nonneg()):
                    lo, hi = alo >> sh, ahi >> sh
        if op == "Add":
            r = x + y
            if ahi + bhi <= M: lo, hi = alo + blo, ahi + bhi
        elif op == "Sub":
            r = x - y
            if alo >= bhi: lo, hi = alo - bhi, ahi - blo
        elif op == "Mul":
            r = x * y
            if ahi * bhi <= M: lo, hi = alo * blo, ahi * bhi
        elif op == "Div":
            if isinstance(b.v, int) and b.v == 0:
                raise Panic("div_by_zero", "binop", "division by zero")
            r = (x / y) if s else z3.UDiv(x, y)
            if blo > 0 and (not s or (a.nonneg() and b.nonneg())): lo, hi = alo // bhi, ahi // blo
        elif op == "Rem":
            if isinstance(b.v, int) and b.v == 0:
                raise Panic("div_by_zero", "binop", "remainder by zero")
            r = z3.SRem(x, y) if s else z3.URem(x, y)
            if blo > 0 and (not s or (a.nonneg() and b.nonneg())): lo, hi = 0, min(ahi, bhi - 1)
        elif op == "BitAnd":
            r = x & y; lo, hi = 0, min(ahi, bhi)
        elif op == "BitOr":
            r = x | y; lo, hi = max(alo, blo), min(M, (1 << max(ahi.bit_length(), bhi.bit_length())) - 1)
        elif op == "BitXor":
            r = x ^ y; lo, hi = 0, min(M, (1 << max(ahi.bit_length(), bhi.bit_length())) - 1)
        elif op == "Shl": r = x << y
        elif op == "Shr": r = (x >> y) if s else z3.LShR(x, y)
        elif op == "Eq": return mkbool(x == y)
        elif op == "Ne": return mkbool(x != y)
        elif op == "Lt": return mkbool((x < y) if s else z3.ULT(x, y))
        elif op == "Le": return mkbool((x <= y) if s else z3.ULE(x, y))
        elif op == "Gt": return mkbool((x > y) if s else z3.UGT(x, y))
        elif op == "Ge": return mkbool((x >= y) if s else z3.UGE(x, y))
        elif op == "Cmp":
            lt = self.branch(self.binop("Lt", a, b))
            if lt:
                return Agg([], variant=-1, ty="Ordering")
            return Agg([], variant=0 if self.branch(self.binop("Eq", a, b)) else 1, ty="Ordering")
        else:
            raise Unsupported("binop " + op)
        return mk(w, s, r, lo, hi, vs)

    def checked(self, op, a, b):
        w, s = a.w, a.s
        if isinstance(a.v, int) and isinstance(b.v, int):
            x, y = a.sval(), b.sval()
            r = x + y if op == "Add" else x - y if op == "Sub" else x * y
            lo, hi = (-(1 << (w - 1)), (1 << (w - 1)) - 1) if s else (0, (1 << w) - 1)
            return Agg([Int(w, s, r), not (lo <= r <= hi)], ty="tuple")
        x, y = a.z(), b.z()
        M = (1 << w) - 1; H = (1 << (w - 1)) - 1
        alo, ahi, blo, bhi = a.lo, a.hi, b.lo, b.hi
        lo = hi = None; ov = None; vs = None
        av, bv = a.valset(), b.valset()
        if av is not None and bv is not None and len(av) * len(bv) <= 96:
            rs = [self.checked(op, Int(w, s, x_), Int(w, s, y_)) for x_ in av for y_ in bv]
            vs = frozenset(r_.f[0].v for r_ in rs)
            if not any(r_.f[1] for r_ in rs):
                ov = False
            elif all(r_.f[1] for r_ in rs):
                ov = True
        if ov is not None:
            res = {"Add": x + y, "Sub": x - y, "Mul": x * y}[op]
            return Agg([mk(w, s, res, None, None, vs), ov], ty="tuple")
        if op == "Add":
            res = x + y
            if not s and ahi + bhi <= M: ov, lo, hi = False, alo + blo, ahi + bhi
            elif s and a.nonneg() and b.nonneg() and ahi + bhi <= H: ov, lo, hi = False, alo + blo, ahi + bhi
            elif not s and alo + blo > M: ov = True
            if ov is None:
                ov = z3.Not(z3.And(z3.BVAddNoOverflow(x, y, True), z3.BVAddNoUnderflow(x, y))) if s else z3.Not(z3.BVAddNoOverflow(x, y, False))
        elif op == "Sub":
            res = x - y
            if not s and alo >= bhi: ov, lo, hi = False, alo - bhi, ahi - blo
            elif not s and ahi < blo: ov = True
            elif s and a.nonneg() and b.nonneg():
                ov = False
                if alo >= bhi: lo, hi = alo - bhi, ahi - blo
            if ov is None:
                ov = z3.Not(z3.And(z3.BVSubNoOverflow(x, y), z3.BVSubNoUnderflow(x, y, True))) if s else z3.ULT(x, y)
        else:
            res = x * y
            if not s and ahi * bhi <= M: ov, lo, hi = False, alo * blo, ahi * bhi
            elif s and a.nonneg() and b.nonneg() and ahi * bhi <= H: ov, lo, hi = False, alo * blo, ahi * bhi
            if ov is None:
                ov = z3.Not(z3.And(z3.BVMulNoOverflow(x, y, True), z3.BVMulNoUnderflow(x, y))) if s else z3.Not(z3.BVMulNoOverflow(x, y, False))
        return Agg([mk(w, s, res, lo, hi, vs), ov if isinstance(ov, bool) else mkbool(ov)], ty="tuple")

    def cast(self, kind, v, ty):
        if kind in ("IntToInt", "IntToFloat", "FloatToInt", "FloatToFloat"):
            if ty in ("f64", "f32"):
                if isinstance(v, float):
                    return v
                if isinstance(v, Int) and v.conc():
                    return float(v.sval())
                if isinstance(v, Int) and (v.vals is not None or v.hi - v.lo <= 64) and (not v.s or v.nonneg()):
                    return float(self.concretize(v, v.hi, v.lo))      # bounded fork over the possible values
                raise Unsupported("symbolic integer to float")
            w, s = INT_TY[ty]
            if isinstance(v, float):
                lo, hi = (-(1 << (w - 1)), (1 << (w - 1)) - 1) if s else (0, (1 << w) - 1)
                return Int(w, s, 0 if v != v else max(lo, min(hi, int(v))))
            if isinstance(v, bool):
                return Int(w, s, int(v))
            if isinstance(v, Int):
                if v.conc():
                    return Int(w, s, v.sval())
                z = v.v; lo = hi = None
                if w < v.w:
                    z = z3.Extract(w - 1, 0, z)
                    if v.hi < (1 << w): lo, hi = v.lo, v.hi
                elif w > v.w:
                    if v.s and not v.nonneg():
                        z = z3.SignExt(w - v.w, z)
                    else:
                        z = z3.ZeroExt(w - v.w, z); lo, hi = v.lo, v.hi
                else:
                    lo, hi = v.lo, v.hi
                vs = None
                if v.vals is not None:
                    vs = frozenset(Int(w, s, Int(v.w, v.s, x_).sval()).v for x_ in v.vals)
                return mk(w, s, z, lo, hi, vs)
            if isinstance(v, Agg) and v.variant is not None and not v.f:      # fieldless enum as integer
                return Int(w, s, v.variant)
            if z3.is_expr(v):
                return mk(w, s, z3.If(v, z3.BitVecVal(1, w), z3.BitVecVal(0, w)), 0, 1)
            raise Unsupported(f"cast {v!r} to {ty}")
        if kind == "PointerCoercion":
            if isinstance(v, Ref) and re.match(r"^(&|\*)(?:'\w+ )?(?:mut |const )?\[", ty):
                return self.as_slice(v)
            return v
        return v      # Transmute / PtrToPtr between pointer types

    def rvalue(self, fr, rv):
        k = rv[0]
        if k == "use":
            return self.operand(fr, rv[1])
        if k == "binop":
            return self.binop(rv[1].replace("Unchecked", ""), self.operand(fr, rv[2]), self.operand(fr, rv[3]))
        if k == "checked":
            return self.checked(rv[1], self.operand(fr, rv[2]), self.operand(fr, rv[3]))
        if k == "ref":
            c, p = self.resolve(fr, rv[1], rv[2]); return self.mkref(c, p)
        if k == "cast":
            return self.cast(rv[1], self.operand(fr, rv[2]), rv[3])
        if k == "unop":
            a = self.operand(fr, rv[2]); op = rv[1]
            if op == "Not":
                if isinstance(a, Int):
                    return Int(a.w, a.s, ~a.v) if a.conc() else mk(a.w, a.s, ~a.v)
                return b_not(a)
            if op == "Neg":
                if isinstance(a, float):
                    return -a
                return Int(a.w, a.s, -a.sval()) if a.conc() else mk(a.w, a.s, -a.v)
            if op == "PtrMetadata":
                l, lo, hi = self.seq_of(a); return Int(64, 0, hi - lo)
        if k == "agg":
            ops = list(rv[3])
            if rv[1].startswith("{closure@") and ops:
                need = self._closure_captures(rv[1])
                if need > len(ops):
                    # rustc's MIR printer names captures by root variable and drops the operands of further precise
                    # captures of the same variable ("{ task: move _677 }" for 3 captures): recover them — at
                    # mir-opt-level 0 the capture operands are consecutive temporaries assigned just before.
                    if len(ops) != 1 or ops[0][0] not in ("move", "copy") or ops[0][2] or not re.fullmatch(r"_\d+", ops[0][1]):
                        raise Unsupported(f"closure {rv[1]} uses {need} captures, MIR prints {len(ops)}")
                    base = int(ops[0][1][1:])
                    ops = [("move", f"_{base + i}", ()) for i in range(need)]
                    for o in ops:
                        if o[1] not in fr.loc or fr.loc[o[1]].v is None:
                            raise Unsupported(f"closure {rv[1]}: capture operand {o[1]} not available")
                    self.notes["closure_capture_recovery"] = "precise captures dropped by the MIR printer were recovered from consecutive temporaries"
            return Agg([self.operand(fr, o) for o in ops], None, rv[1])
        if k == "adt":
            return self.adt(fr, rv[1], [self.operand(fr, o) for o in rv[2]])
        if k == "discr":
            c, p = self.resolve(fr, rv[1], rv[2]); v = self.read(c, p)
            if isinstance(v, Agg) and v.variant is not None:
                return Int(64, 1, v.variant)
            if hasattr(v, "variant"):
                return Int(64, 1, v.variant)
            raise Unsupported(f"discriminant of {v!r}")
        if k == "len":
            c, p = self.resolve(fr, rv[1], rv[2])
            if p and p[-1][0] == "w":
                return Int(64, 0, p[-1][2] - p[-1][1])
            return Int(64, 0, len(self._seq(self.read(c, p))))
        if k == "repeat":
            ev = self.operand(fr, rv[1]); n = rv[2]
            nv = int(n) if n.isdigit() else self.const_value(n.replace("const ", ""), fr).v
            return Agg([copy_val(ev) for _ in range(nv)], ty="array")
        raise Unsupported("rvalue " + str(rv))

    def _closure_captures(self, cid):
        c = self.__dict__.setdefault("_clo_caps", {})
        if cid not in c:
            f = self.p.closures.get(cid)
            n = 0
            if f is not None:
                if f.lines is not None:
                    self.p.parse_body(f)
                txt = "\n".join(t for b in f.raw.values() for t in b) + "\n" + "\n".join(getattr(f, "header_lines", []) or [])
                byref = f.args and f.args[0][1].startswith("&")
                idx = [int(x) for x in re.findall(r"\(\*_1\)\.(\d+):" if byref else r"\(_1\.(\d+):", txt)]
                n = max(idx) + 1 if idx else 0
            c[cid] = n
        return c[cid]

    def adt(self, fr, path, fields):
        """Struct literal or enum variant constructor."""
        base = strip_generics(path)
        parts = base.split("::")
        if parts[-1] in ("Relaxed", "SeqCst", "Acquire", "Release", "AcqRel") and not fields:
            return Agg([], 0, "AtomicOrdering")
        if len(parts) >= 2 and (parts[-2] in self.p.enums or parts[-2] in ("Option", "Result", "Ordering", "ControlFlow", "Cow", "Bound", "SeekFrom")):
            en = parts[-2]
            if parts[-1] in self.p.enums.get(en, ()) or en not in self.p.enums:
                return Agg(fields, self.p.variant_index(en, parts[-1]), en)
        name = parts[-1]
        if len(parts) == 1 and name not in self.p.structs:
            # trimmed path: a bare variant name that is unique in scope
            std = {"Start": "SeekFrom", "End": "SeekFrom", "Current": "SeekFrom", "Some": "Option", "None": "Option", "Ok": "Result", "Err": "Result",
                   "Borrowed": "Cow", "Owned": "Cow", "Included": "Bound", "Excluded": "Bound", "Unbounded": "Bound", "Continue": "ControlFlow", "Break": "ControlFlow"}
            owners = [en for en, vs in self.p.enums.items() if name in vs]
            if name in std and not owners:
                return Agg(fields, self.p.variant_index(std[name], name), std[name])
            if len(owners) == 1:
                return Agg(fields, self.p.variant_index(owners[0], name), owners[0])
        if name in ("Less", "Equal", "Greater") and not fields:
            return Agg([], {"Less": -1, "Equal": 0, "Greater": 1}[name], "Ordering")
        if len(parts) >= 2 and parts[-2][:1].isupper() and parts[-2] not in self.p.structs and parts[-1][:1].isupper() and parts[-2] not in ("Self",):
            # enum of another crate/std we do not know
            raise Unsupported("enum constructor " + path)
        return Agg(fields, None, name)

    # ================================================================== calls
    def call(self, callee, args, fr=None):
        self.steps += 1
        h = self.call_cache.get(callee)
        if h is None:
            h = self._resolve_call(callee, fr.f.crate if fr else None)
            self.call_cache[callee] = h
        kind, target = h
        if kind == "stub":
            return target(self, callee, args)
        if kind == "fn":
            return self.run_func(target, args, callee)
        self.models_used[target[0]] = self.models_used.get(target[0], 0) + 1
        return target[1](self, callee, args)

    def _resolve_call(self, callee, crate):
        for rx, fn in self.stubs:
            if rx.search(callee):
                return ("stub", fn)
        if "{closure@" not in callee.split("::")[0] and not PANIC_FNS.search(callee):
            f = self.p.resolve(callee, crate)
            if f is not None:
                last = f.name.split("::")[-1]
                if f.impl is None and f.nargs == 0 and last in self.p.env_fns:
                    return ("stub", lambda e, c, a: False)       # all RAGC debug/trace environment switches are off
                if f.impl is None and f.nargs == 0 and last in self.p.env_opt_fns:
                    return ("stub", lambda e, c, a: none())
                return ("fn", f)
        for name, rx, fn in self.MODELS:
            if rx.search(callee):
                return ("model", (name, fn))
        # same callee with std module paths trimmed (`std::string::String` -> `String`), as rustc prints it in other crates
        short = re.sub(r"\b(?:std|core|alloc)::(?:[a-z_0-9]+::)+(?=[A-Z])", "", callee)
        if short != callee:
            for name, rx, fn in self.MODELS:
                if rx.search(short):
                    return ("model", (name, lambda e, c, a, _fn=fn, _s=short: _fn(e, _s, a)))
        raise Unsupported("no model for callee: " + callee)

    def call_closure(self, clo, args):
        """Call a closure value / fn item with already-untupled args."""
        if isinstance(clo, Ref):
            inner = self.load(clo)
            if isinstance(inner, (Agg, FnItem)) or isinstance(inner, Ref):
                return self.call_closure(inner, args) if not isinstance(inner, Agg) else self._call_closure_agg(inner, clo, args)
        if isinstance(clo, FnItem):
            base = strip_generics(clo.path).split("::")
            if base[-1] in ("Some", "Ok", "Err") or (len(base) >= 2 and base[-2] in self.p.enums and base[-1] in self.p.enums[base[-2]]) or \
               (base[-1][:1].isupper() and base[-1] in self.p.structs and self.p.resolve(clo.path) is None):
                return self.adt(None, clo.path, list(args))
            return self.call(clo.path, args)
        if isinstance(clo, Agg):
            return self._call_closure_agg(clo, Ref(Cell(clo)), args)
        if callable(clo):
            return clo(*args)
        raise Unsupported(f"call of {clo!r}")

    def _call_closure_agg(self, agg, ref, args):
        f = self.p.closures.get(agg.ty)
        if f is None:
            raise Unsupported("closure body not found: " + agg.ty)
        first = f.args[0][1]
        self_arg = ref if first.startswith("&") else agg
        return self.run_func(f, [self_arg] + list(args), "")

    def run_func(self, f, args, callee=""):
        if f.lines is not None:
            self.p.parse_body(f)
        self.funcs_used[f.name] = f.text_hash
        fr = Frame(f)
        if callee and "::<" in callee:
            self._bind_generics(f, callee, fr)
        loc = fr.loc
        for l in f.types:
            loc[l] = Cell()
        for i, a in enumerate(args):
            loc[f"_{i + 1}"].v = a
        code, raw = f.code, f.raw
        bb = "bb0"
        while True:
            blk = code.get(bb)
            if blk is None:
                try:
                    blk = Compiler(f).block(raw[bb])
                except Unsupported as e:
                    raise Unsupported(f"{e} [in {f.crate}:{f.name} {bb}]")
                code[bb] = blk
            stmts, term = blk
            self.steps += len(stmts) + 1
            if self.steps > self.max_steps:
                raise BudgetExceeded(f"step budget {self.max_steps} exceeded in {f.name}")
            try:
                for st in stmts:
                    if st[0] == "assign":
                        val = self.rvalue(fr, st[3])
                        if st[2]:
                            c, p = self.resolve(fr, st[1], st[2]); self.write(c, p, val)
                        else:
                            loc[st[1]].v = val
                    elif st[0] == "setdiscr":
                        c, p = self.resolve(fr, st[1], st[2]); v = self.read(c, p)
                        if isinstance(v, Agg):
                            v.variant = st[3]
                        else:
                            self.write(c, p, Agg([], st[3], "enum"))
            except (IndexError, AttributeError, TypeError, KeyError) as ex:
                raise Unsupported(f"engine error {ex!r} at statement {st!r} [in {f.crate}:{f.name} {bb}]")
            k = term[0]
            if k == "goto":
                bb = term[1]
            elif k == "return":
                return loc["_0"].v if loc["_0"].v is not None else UNIT
            elif k == "switch":
                bb = self._switch(fr, f, bb, term)
            elif k == "assert":
                v = self.operand(fr, term[1])
                ok_ = v if term[2] else b_not(v)
                if not self.branch(ok_):
                    raise Panic(_assert_kind(term[3]), f.name, term[3])
                bb = term[4]
            elif k == "call":
                dest, callee2, aops, ret = term[1], term[2], term[3], term[4]
                a = [self.operand(fr, o) for o in aops]
                if isinstance(callee2, tuple):
                    c, p = self.resolve(fr, callee2[1], callee2[2])
                    r = self.call_closure(self.read(c, p), a)
                elif PANIC_FNS.search(callee2):
                    raise Panic("explicit_panic", f.name, _panic_msg(self, callee2, a))
                else:
                    try:
                        r = self.call(callee2, a, fr)
                    except Unsupported as e:
                        if "[in " not in str(e):
                            raise Unsupported(f"{e} [in {f.crate}:{f.name} {bb}]")
                        raise
                if ret is None:
                    raise Panic("diverging_call", f.name, callee2)
                if dest is not None:
                    if dest[1]:
                        c, p = self.resolve(fr, dest[0], dest[1]); self.write(c, p, r)
                    else:
                        loc[dest[0]].v = r
                bb = ret
            elif k == "drop":
                c, p = self.resolve(fr, term[1], term[2])
                v = self.read(c, p) if (c.v is not None) else None
                if v is not None:
                    self.drop_value(v)
                bb = term[3]
            elif k == "unreachable":
                raise Panic("unreachable", f.name, term[1])
            else:
                raise Unsupported("terminator " + str(term))

    def drop_value(self, v):
        if hasattr(v, "on_drop"):
            v.on_drop(self)
        elif isinstance(v, Agg):
            h = self.drop_hooks.get(v.ty) if hasattr(self, "drop_hooks") else None
            if h:
                h(self, v)
            for x in v.f:
                if hasattr(x, "on_drop") or isinstance(x, Agg):
                    self.drop_value(x)

    def _bind_generics(self, f, callee, fr):
        gs = self.p.fn_generics.get(f.name.split("::")[-1])
        if not gs:
            return
        m = re.search(r"::<([^()]*)>$", callee)
        if not m:
            return
        vals = split_top(m.group(1))
        gs_c = [g for g in gs]
        if len(vals) < len(gs_c):
            return
        for (kind, nm, ty), val in zip(gs_c, vals[-len(gs_c):]):
            if kind == "const" and re.fullmatch(r"-?\d+", val.strip()):
                w, s = INT_TY[ty]; fr.gen[nm] = Int(w, s, int(val))

    def _switch(self, fr, f, bb, term):
        v = self.operand(fr, term[1])
        cases, other = term[2], term[3]
        if isinstance(v, bool):
            for kv, d in cases:
                if bool(kv) == v:
                    return d
            return other
        if isinstance(v, Int) and v.conc():
            sv, uv = v.sval(), v.v
            for kv, d in cases:
                if kv == sv or kv == uv:
                    return d
            return other
        # symbolic: try if-conversion of constant diamonds
        key = bb
        ic = f.ifconv.get(key)
        if ic is None:
            ic = self._ifconv_analyse(f, cases, other)
            f.ifconv[key] = ic
        if ic and isinstance(v, Int):
            dest_local, join, arms = ic
            vals = {}
            ok_ = True
            for tgt, op in arms.items():
                val = self.operand(fr, op)
                if not isinstance(val, (Int, bool)) and not z3.is_expr(val):
                    ok_ = False; break
                vals[tgt] = val
            if ok_:
                res = vals[other]
                isint = isinstance(res, Int)
                z = res.z() if isint else zbool(res)
                for kv, d in reversed(cases):
                    zv = vals[d].z() if isint else zbool(vals[d])
                    z = z3.If(v.z() == z3.BitVecVal(kv, v.w), zv, z)
                fr.loc[dest_local].v = mk(res.w, res.s, z, min(x.lo for x in vals.values()), max(x.hi for x in vals.values())) if isint else mkbool(z)
                return join
        if isinstance(v, Int):
            for kv, d in cases:
                if self.branch(v.z() == z3.BitVecVal(kv, v.w)):
                    return d
            return other
        # symbolic bool
        for kv, d in cases:
            if self.branch(v if kv else z3.Not(v)):
                return d
        return other

    def _ifconv_analyse(self, f, cases, other):
        if other is None or len(cases) < 1:
            return False
        arms, dest, join = {}, None, None
        for tgt in [d for _, d in cases] + [other]:
            if tgt in arms:
                continue
            raw = f.raw.get(tgt)
            if raw is None or len(raw) != 2:
                return False
            blk = f.code.get(tgt)
            if blk is None:
                try:
                    blk = Compiler(f).block(raw)
                except Unsupported:
                    return False
                f.code[tgt] = blk
            stmts, term = blk
            st = stmts[0]
            if term[0] != "goto" or st[0] != "assign" or st[2] or st[3][0] != "use":
                return False
            op = st[3][1]
            if op[0] != "const" and (op[0] not in ("copy", "move") or op[2]):
                return False
            if dest is None:
                dest, join = st[1], term[1]
            elif dest != st[1] or join != term[1]:
                return False
            arms[tgt] = op
        return (dest, join, arms)


_FLOAT_OPS = {"Add": lambda a, b: a + b, "Sub": lambda a, b: a - b, "Mul": lambda a, b: a * b,
              "Div": lambda a, b: (a / b) if b != 0 else (float("inf") if a > 0 else float("-inf") if a < 0 else float("nan")),
              "Lt": lambda a, b: a < b, "Le": lambda a, b: a <= b, "Gt": lambda a, b: a > b, "Ge": lambda a, b: a >= b,
              "Eq": lambda a, b: a == b, "Ne": lambda a, b: a != b}


def _assert_kind(msg):
    if "overflow" in msg:
        return "overflow"
    if "index out of bounds" in msg:
        return "index_oob"
    if "divide by zero" in msg or "division by zero" in msg or "remainder" in msg:
        return "div_by_zero"
    if "misaligned" in msg or "null pointer" in msg:
        return "ptr"
    return "assert"


def _panic_msg(e, callee, args):
    for a in args:
        if isinstance(a, Slice):
            try:
                return callee.split("::")[-1] + ": " + e.bytes_of(a).decode(errors="replace")
            except Exception:
                pass
    return callee


def _unescape(s):
    out = bytearray(); i = 0
    while i < len(s):
        c = s[i]
        if c == "\\":
            n = s[i + 1]
            if n == "n": out.append(10); i += 2
            elif n == "r": out.append(13); i += 2
            elif n == "t": out.append(9); i += 2
            elif n == "0": out.append(0); i += 2
            elif n == "\\": out.append(92); i += 2
            elif n == '"': out.append(34); i += 2
            elif n == "'": out.append(39); i += 2
            elif n == "x": out.append(int(s[i + 2:i + 4], 16)); i += 4
            elif n == "u":
                j = s.index("}", i); out += chr(int(s[i + 3:j], 16)).encode("utf-8"); i = j + 1
            elif n == "\n":
                i += 2
                while i < len(s) and s[i] in " \t\n":
                    i += 1
            else:
                out.append(ord(n)); i += 2
        else:
            out += c.encode("utf-8"); i += 1
    return bytes(out)


# ---------------------------------------------------------------------- harness conveniences
def _call_fn(self, crate, pattern, args):
    """Run the real function `pattern` (impl-normalised name) of `crate` on engine values."""
    f = self.p.find(crate, pattern)
    return self.run_func(f, args, pattern)


def _mk_vec(self, items, kind="Vec"):
    return VecObj(list(items), kind)


def _ref_to(self, v):
    return Ref(Cell(v))


def _slice_of(self, items):
    return Slice(Cell(VecObj(list(items))), (), 0, len(items))


def _vec_items(self, v):
    if isinstance(v, list):
        return v
    l, lo, hi = self.seq_of(v)
    return l[lo:hi]


def _eq_bytes(self, xs, ys):
    """z3 condition: two equal-length Int lists are element-wise equal (False when lengths differ)."""
    if len(xs) != len(ys):
        return False
    r = True
    for x, y in zip(xs, ys):
        r = b_and(r, self.binop("Eq", x, y))
        if r is False:
            return False
    return r


Engine.call_fn = _call_fn
Engine.mk_vec = _mk_vec
Engine.ref_to = _ref_to
Engine.slice_of = _slice_of
Engine.vec_items = _vec_items
Engine.eq_bytes = _eq_bytes


def _struct(self, struct_name_, **fields):
    """Struct value with fields placed by the declaration order read from the crate source."""
    order = self.p.structs[struct_name_]
    assert set(fields) == set(order), (struct_name_, order, list(fields))
    return Agg([fields[f] for f in order], None, struct_name_.split(":")[-1])


def _field(self, agg, struct, fname):
    return agg.f[self.p.structs[struct].index(fname)]


def _stub(self, pattern, fn):
    self.stubs.append((re.compile(pattern), fn))
    self.call_cache = {}


Engine.struct = _struct
Engine.field = _field
Engine.stub = _stub
