"""Value representation of the MIR symbolic executor."""
import z3

INT_TY = {"u8": (8, 0), "u16": (16, 0), "u32": (32, 0), "u64": (64, 0), "usize": (64, 0), "u128": (128, 0),
          "i8": (8, 1), "i16": (16, 1), "i32": (32, 1), "i64": (64, 1), "isize": (64, 1), "i128": (128, 1),
          "char": (32, 0)}


class Panic(Exception):
    """The real code would panic on this path (overflow assert, bounds, unwrap, explicit panic!)."""
    def __init__(self, kind, where="", msg=""):
        Exception.__init__(self, f"{kind} in {where}: {msg}")
        self.kind, self.where, self.msg = kind, where, msg


class Unsupported(Exception):
    """The engine met a construct or callee it does not model: the check is inconclusive."""


class Infeasible(Exception):
    """Path condition became unsatisfiable (assume failed)."""


class BudgetExceeded(Exception):
    pass


class PropertyViolation(Exception):
    """Harness assertion refuted on this path (solver returned a model)."""
    def __init__(self, role, desc=""):
        Exception.__init__(self, f"{role}: {desc}")
        self.role, self.desc = role, desc


class Int:
    """Machine integer: width, signedness, value (python int or z3 bit-vector) and a sound unsigned interval
    [lo, hi] of its bit pattern (used to decide comparisons / overflow checks without a solver query)."""
    __slots__ = ("w", "s", "v", "lo", "hi", "vals")

    def __init__(self, w, s, v, lo=None, hi=None, vals=None):
        self.w, self.s = w, s
        self.vals = None
        if isinstance(v, int):
            v &= (1 << w) - 1
            self.lo = self.hi = v
        else:
            self.lo = 0 if lo is None else lo
            self.hi = ((1 << w) - 1) if hi is None else hi
            if vals is not None and len(vals) <= 96:
                self.vals = vals          # sound finite superset of the possible bit patterns
                self.lo, self.hi = max(self.lo, min(vals)), min(self.hi, max(vals))
        self.v = v

    def valset(self):
        return frozenset((self.v,)) if isinstance(self.v, int) else self.vals

    def conc(self):
        return isinstance(self.v, int)

    def z(self):
        return z3.BitVecVal(self.v, self.w) if isinstance(self.v, int) else self.v

    def sval(self):
        v = self.v
        return v - (1 << self.w) if self.s and v >> (self.w - 1) else v

    def nonneg(self):
        """bit pattern certainly below the sign bit (so signed and unsigned readings agree)"""
        return self.hi < (1 << (self.w - 1))

    def __repr__(self):
        return f"{'i' if self.s else 'u'}{self.w}({self.sval() if isinstance(self.v, int) else self.v})"


def mk(w, s, zexpr, lo=None, hi=None, vals=None):
    """Int from a z3 term, folding to a Python int when the term simplifies to a numeral."""
    if isinstance(zexpr, int):
        return Int(w, s, zexpr)
    if lo is not None and lo == hi:
        return Int(w, s, lo)
    if vals is not None and len(vals) == 1:
        return Int(w, s, next(iter(vals)))
    zexpr = z3.simplify(zexpr)
    if z3.is_bv_value(zexpr):
        return Int(w, s, zexpr.as_long())
    return Int(w, s, zexpr, lo, hi, vals)


def mkbool(b):
    if isinstance(b, bool):
        return b
    b = z3.simplify(b)
    if z3.is_true(b):
        return True
    if z3.is_false(b):
        return False
    return b


def zbool(b):
    return z3.BoolVal(b) if isinstance(b, bool) else b


def b_not(a):
    return (not a) if isinstance(a, bool) else mkbool(z3.Not(a))


def b_and(a, b):
    if isinstance(a, bool):
        return b if a else False
    if isinstance(b, bool):
        return a if b else False
    return mkbool(z3.And(a, b))


def b_or(a, b):
    if isinstance(a, bool):
        return True if a else b
    if isinstance(b, bool):
        return True if b else a
    return mkbool(z3.Or(a, b))


class Agg:
    """struct / tuple / enum variant / array / closure: positional fields."""
    __slots__ = ("f", "variant", "ty")

    def __init__(self, f, variant=None, ty=""):
        self.f, self.variant, self.ty = list(f), variant, ty

    def __repr__(self):
        v = "" if self.variant is None else f"#{self.variant}"
        return f"{self.ty}{v}{self.f}"


class VecObj:
    """Growable heap sequence (Vec<T>, String as bytes, VecDeque): per-path concrete length."""
    __slots__ = ("e", "kind")

    def __init__(self, e, kind="Vec"):
        self.e, self.kind = list(e), kind

    def __repr__(self):
        return f"{self.kind}{self.e}"


class Cell:
    __slots__ = ("v",)

    def __init__(self, v=None):
        self.v = v


class Ref:
    """Thin pointer to a place: cell + projection path."""
    __slots__ = ("cell", "path")

    def __init__(self, cell, path=()):
        self.cell, self.path = cell, tuple(path)

    def __repr__(self):
        return f"&{self.path}"


class Slice:
    """Fat pointer &[T] / &str: window [lo,hi) of the sequence stored at (cell, path)."""
    __slots__ = ("cell", "path", "lo", "hi")

    def __init__(self, cell, path, lo, hi):
        self.cell, self.path, self.lo, self.hi = cell, tuple(path), lo, hi

    def __repr__(self):
        return f"&[{self.lo}..{self.hi}]"


class StrConst:
    """&'static str / &'static [u8] literal."""
    __slots__ = ("b",)

    def __init__(self, b):
        self.b = b

    def __repr__(self):
        return f"str{self.b!r}"


class FnItem:
    """Zero-sized function item / fn pointer to a path."""
    __slots__ = ("path",)

    def __init__(self, path):
        self.path = path

    def __repr__(self):
        return f"fn {self.path}"


class Opaque:
    """Token for values whose content is irrelevant (fmt::Arguments, io::Error, anyhow::Error...)."""
    __slots__ = ("tag", "data")

    def __init__(self, tag, data=None):
        self.tag, self.data = tag, data

    def __repr__(self):
        return f"<{self.tag}:{self.data}>"


UNIT = Agg([], ty="()")


def some(v):
    return Agg([v], variant=1, ty="Option")


def none():
    return Agg([], variant=0, ty="Option")


def ok(v):
    return Agg([v], variant=0, ty="Result")


def err(v):
    return Agg([v], variant=1, ty="Result")


def copy_val(v):
    """Value copy for `copy` operands: aggregates are values, everything else is immutable or a handle."""
    if isinstance(v, Agg):
        return Agg([copy_val(x) for x in v.f], v.variant, v.ty)
    return v


def deep_clone(v):
    """Clone::clone semantics for owned data (Vec contents are copied)."""
    if isinstance(v, Agg):
        return Agg([deep_clone(x) for x in v.f], v.variant, v.ty)
    if isinstance(v, VecObj):
        return VecObj([deep_clone(x) for x in v.e], v.kind)
    if hasattr(v, "clone_obj"):
        return v.clone_obj()
    return v
