"""MIR text front end: function index, lazy body parsing, statement compilation to tuples,
source-derived tables (impl headers, enum variants, struct fields, generic parameter lists)."""
import os, re, hashlib
from .values import Unsupported, INT_TY

SKIP_STMT = ("StorageLive", "StorageDead", "FakeRead", "PlaceMention", "nop", "Retag", "Coverage",
             "AscribeUserType", "ConstEvalCounter", "BackwardIncompatibleDropHint", "Deinit")

BINOPS = {"Add", "Sub", "Mul", "Div", "Rem", "BitAnd", "BitOr", "BitXor", "Shl", "Shr", "Eq", "Ne", "Lt", "Le",
          "Gt", "Ge", "Cmp", "Offset", "AddUnchecked", "SubUnchecked", "MulUnchecked", "ShlUnchecked", "ShrUnchecked"}
CHECKED = {"AddWithOverflow", "SubWithOverflow", "MulWithOverflow"}
UNOPS = {"Not", "Neg", "PtrMetadata"}
TRANSPARENT = ("Box<", "std::boxed::Box<", "std::ptr::Unique<", "std::ptr::NonNull<", "std::mem::MaybeUninit<",
               "std::mem::ManuallyDrop<", "std::mem::MaybeDangling<", "*const std::mem::MaybeUninit<", "*mut std::mem::MaybeUninit<")


def split_top(s, sep=","):
    """Split at top-level separators (outside (), [], {}, <>, string literals)."""
    out, depth, cur, i, n = [], 0, [], 0, len(s)
    while i < n:
        c = s[i]
        if c == '"':
            j = i + 1
            while j < n and s[j] != '"':
                j += 2 if s[j] == "\\" else 1
            cur.append(s[i:j + 1]); i = j + 1; continue
        if c == "'" and i + 2 < n and (s[i + 2] == "'" or (s[i + 1] == "\\" and "'" in s[i + 2:i + 8])):
            j = s.index("'", i + 2 if s[i + 1] != "\\" else i + 3)
            cur.append(s[i:j + 1]); i = j + 1; continue
        if c in "([{":
            depth += 1
        elif c in ")]}":
            depth -= 1
        elif c == "<":
            if not (s[i - 1:i] == " " and s[i + 1:i + 2] in (" ", "=")):
                depth += 1
        elif c == ">":
            if not (s[i - 1:i] in ("-", "=") or (s[i - 1:i] == " " and s[i + 1:i + 2] in (" ", "="))):
                depth -= 1
        elif c == sep and depth == 0:
            out.append("".join(cur).strip()); cur = []; i += 1; continue
        cur.append(c); i += 1
    t = "".join(cur).strip()
    if t:
        out.append(t)
    return out


def match_close(s, i):
    """s[i] is an opening bracket; index of its matching close (string-literal aware)."""
    op = s[i]; cl = {"(": ")", "[": "]", "{": "}", "<": ">"}[op]
    d, j, n = 0, i, len(s)
    while j < n:
        c = s[j]
        if c == '"':
            j += 1
            while j < n and s[j] != '"':
                j += 2 if s[j] == "\\" else 1
        elif c == op:
            d += 1
        elif c == cl and not (cl == ">" and s[j - 1] in "-="):
            d -= 1
            if d == 0:
                return j
        j += 1
    raise ValueError("unbalanced: " + s)


def strip_generics(path):
    """Remove every ::<...> turbofish and <...> type-argument list from a path."""
    out, i, n = [], 0, len(path)
    while i < n:
        if path.startswith("::<", i):
            i = match_close(path, i + 2) + 1; continue
        if path[i] == "<" and out and (out[-1].isalnum() or out[-1] == "_"):
            i = match_close(path, i) + 1; continue
        out.append(path[i]); i += 1
    return "".join(out)


def type_base(t):
    """`std::vec::Vec<u8>` -> `Vec`; `&mut segment::Segment` -> `Segment`."""
    t = t.strip()
    t = re.sub(r"^(&'?\w*\s*(mut )?|\*const |\*mut )+", "", t)
    t = strip_generics(t)
    return t.split("::")[-1].strip()


class Func:
    __slots__ = ("name", "crate", "args", "ret", "types", "raw", "code", "nargs", "text_hash", "lines", "impl", "generics", "ifconv")

    def __init__(self, name, crate):
        self.name, self.crate = name, crate
        self.args, self.ret, self.types, self.raw, self.code = [], "", {}, {}, {}
        self.nargs, self.text_hash, self.lines, self.impl, self.generics, self.ifconv = 0, "", None, None, None, {}


class Program:
    def __init__(self, mir_files, repo):
        """mir_files: {crate: path}. repo: path of the working tree (for impl headers, enums, structs)."""
        self.repo = repo
        self.funcs = {}          # (crate, name) -> Func
        self.by_last = {}        # last path segment -> [Func]
        self.by_impl = {}        # (type_base, trait_base|None, tail) -> [Func]
        self.closures = {}       # '{closure@file:l:c: l:c}' -> Func
        self.consts = {}         # (crate, name) -> ('lit', type, text) | ('body', Func)
        self.const_by_last = {}
        self.enums, self.structs, self.fn_generics, self.derive_cache = {}, {}, {}, {}
        self._src = {}
        for crate, p in mir_files.items():
            self._index(crate, p)
        self._scan_sources()

    # ------------------------------------------------------------------ MIR indexing
    def _index(self, crate, path):
        txt = open(path).read()
        lines = txt.split("\n")
        i, n = 0, len(lines)
        while i < n:
            ln = lines[i]
            if ln.startswith("fn "):
                j = i
                while lines[j] != "}":
                    j += 1
                self._add_fn(crate, lines[i:j + 1]); i = j + 1; continue
            if ln.startswith("const ") or ln.startswith("static "):
                m = re.match(r"^(?:const|static(?: mut)?) (.+): (.+?) = const (.+);$", ln)
                if m:
                    self._add_const(crate, m.group(1), ("lit", m.group(2), m.group(3)))
                elif ln.endswith("= {"):
                    j = i
                    while lines[j] != "}":
                        j += 1
                    m = re.match(r"^(?:const|static(?: mut)?) (.+): (.+?) = \{$", ln)
                    if m:
                        f = Func("const:" + m.group(1), crate)
                        f.ret = m.group(2); f.types["_0"] = f.ret; f.lines = lines[i + 1:j]
                        self._add_const(crate, m.group(1), ("body", f))
                    i = j
            i += 1

    def _add_const(self, crate, name, val):
        self.consts[(crate, name)] = val
        key = re.sub(r"<impl at [^>]*>", "<impl>", name)
        self.const_by_last.setdefault(key.split("::")[-1] if "promoted[" not in key else key, []).append((crate, name, val))

    def _add_fn(self, crate, lines):
        hdr = lines[0]
        m = re.match(r"^fn (.+?)\((.*)\) -> (.+) \{$", hdr)
        if not m:
            return
        name = m.group(1)
        # the name itself may contain parentheses only inside <impl at ...>; re-split robustly
        if name.count("<impl at") and ">" not in name.split("<impl at")[-1]:
            k = hdr.index(">::", hdr.index("<impl at")) + 3
            k2 = hdr.index("(", k)
            name = hdr[3:k2]
            rest = hdr[k2:]
            m2 = re.match(r"^\((.*)\) -> (.+) \{$", rest)
            args, ret = m2.group(1), m2.group(2)
        else:
            args, ret = m.group(2), m.group(3)
        f = Func(name, crate)
        f.ret = ret
        for a in split_top(args):
            am = re.match(r"(_\d+): (.*)", a)
            f.args.append((am.group(1), am.group(2))); f.types[am.group(1)] = am.group(2)
        f.nargs = len(f.args); f.types["_0"] = ret
        f.lines = lines[1:-1]
        f.text_hash = hashlib.sha256("\n".join(lines).encode()).hexdigest()[:12]
        if (crate, name) in self.funcs:
            return
        self.funcs[(crate, name)] = f
        if "{closure#" in name:
            first = f.args[0][1] if f.args else ""
            cm = re.search(r"\{closure@[^}]*\}", first)
            if cm:
                self.closures[cm.group(0)] = f
            return
        im = re.search(r"<impl at ([^:>]+):(\d+):(\d+): \d+:\d+>::(.*)$", name)
        if im:
            f.impl = (im.group(1), int(im.group(2)), int(im.group(3)), im.group(4))
        else:
            self.by_last.setdefault(name.split("::")[-1], []).append(f)

    def parse_body(self, f):
        """Split the body into locals and basic blocks (raw statement strings)."""
        if f.lines is None:
            return
        bb = None
        for line in f.lines:
            m = re.match(r"^\s+(?:let (?:mut )?)(_\d+): (.*);$", line)
            if m and bb is None:
                f.types[m.group(1)] = m.group(2); continue
            m = re.match(r"^\s+(bb\d+)(?: \(cleanup\))?: \{$", line)
            if m:
                bb = []; f.raw[m.group(1)] = bb; continue
            if bb is not None:
                t = line.strip()
                if not t or t == "}":
                    if t == "}":
                        bb = None if line.startswith("    }") and not line.startswith("     ") else bb
                    continue
                if t.startswith(SKIP_STMT) or t.startswith("//"):
                    continue
                if t.endswith(";"):
                    t = t[:-1]
                bb.append(t)
        f.lines = None

    # ------------------------------------------------------------------ source tables
    def src(self, rel):
        if rel not in self._src:
            p = os.path.join(self.repo, rel)
            self._src[rel] = open(p, errors="replace").read().split("\n") if os.path.exists(p) else []
        return self._src[rel]

    def _scan_sources(self):
        for crate in ("ragc-core", "ragc-common", "ragc-cli"):
            d = os.path.join(self.repo, crate, "src")
            for root, _, files in os.walk(d):
                for fn in files:
                    if fn.endswith(".rs"):
                        rel = os.path.relpath(os.path.join(root, fn), self.repo)
                        self._scan_file(rel)
        self.env_fns = set(re.findall(r"pub fn (\w+)\(\) -> bool", "\n".join(self.src("ragc-core/src/env_cache.rs"))))
        self.env_opt_fns = set(re.findall(r"pub fn (\w+)\(\) -> Option", "\n".join(self.src("ragc-core/src/env_cache.rs"))))
        # resolve impl headers of indexed functions
        for (crate, name), f in self.funcs.items():
            if f.impl:
                file, line, col, tail = f.impl
                ty, tr = self.impl_header(file, line, col)
                self.by_impl.setdefault((ty, tr, tail), []).append(f)

    def _scan_file(self, rel):
        txt = "\n".join(self.src(rel))
        txt_nc = re.sub(r"//[^\n]*", "", txt)
        for m in re.finditer(r"\benum\s+(\w+)\s*(?:<[^{]*>)?\s*\{", txt_nc):
            body = txt_nc[m.end() - 1:match_close(txt_nc, m.end() - 1) + 1][1:-1]
            vs = []
            for part in split_top(body):
                part = re.sub(r"#\[[^\]]*\]", "", part).strip()
                vm = re.match(r"^(\w+)", part)
                if vm:
                    vs.append(vm.group(1))
            self.enums.setdefault(m.group(1), vs)
        for m in re.finditer(r"\bstruct\s+(\w+)\s*(?:<[^{;(]*>)?\s*(?:where[^{]*)?\{", txt_nc):
            body = txt_nc[m.end() - 1:match_close(txt_nc, m.end() - 1) + 1][1:-1]
            fs = []
            for part in split_top(body):
                if re.search(r"#\[cfg\((?!not)", part):
                    continue          # feature-gated field: all cargo features are off in every build used here
                part = re.sub(r"#\[[^\]]*\]", "", part).strip()
                fm = re.match(r"^(?:pub(?:\([^)]*\))?\s+)?(\w+)\s*:", part)
                if fm:
                    fs.append(fm.group(1))
            self.structs.setdefault(m.group(1), fs)
            self.structs[os.path.basename(rel) + ":" + m.group(1)] = fs      # disambiguation for names defined in several files
        for m in re.finditer(r"\bfn\s+(\w+)\s*<", txt_nc):
            try:
                j = match_close(txt_nc, m.end() - 1)
            except ValueError:
                continue
            gs = []
            for g in split_top(txt_nc[m.end():j]):
                g = g.strip()
                cm = re.match(r"^const\s+(\w+)\s*:\s*(\w+)", g)
                if cm:
                    gs.append(("const", cm.group(1), cm.group(2)))
                elif g.startswith("'"):
                    continue
                else:
                    gs.append(("type", re.match(r"^(\w+)", g).group(1), None))
            self.fn_generics.setdefault(m.group(1), gs)

    def impl_header(self, file, line, col):
        """(type_base, trait_base|None) of the impl block or derive attribute at file:line:col."""
        key = (file, line, col)
        if key in self.derive_cache:
            return self.derive_cache[key]
        src = self.src(file)
        res = ("?", None)
        if 0 < line <= len(src):
            text = src[line - 1]
            if "derive(" in text and not text.lstrip().startswith("impl"):
                tm = re.match(r"(\w+)", text[col - 1:])
                tr = tm.group(1) if tm else None
                ty = "?"
                for k in range(line, min(line + 30, len(src))):
                    sm = re.search(r"\b(?:struct|enum)\s+(\w+)", src[k])
                    if sm:
                        ty = sm.group(1); break
                res = (ty, tr)
            else:
                hdr = " ".join(src[line - 1:line + 6])
                hdr = hdr[hdr.index("impl"):] if "impl" in hdr else hdr
                hdr = hdr.split("{")[0]
                hdr = re.sub(r"^impl\s*", "", hdr)
                if hdr.startswith("<"):
                    hdr = hdr[match_close(hdr, 0) + 1:]
                hdr = hdr.split(" where ")[0].strip()
                if " for " in hdr:
                    tr, ty = hdr.split(" for ", 1)
                    res = (type_base(ty), type_base(tr))
                else:
                    res = (type_base(hdr), None)
        self.derive_cache[key] = res
        return res

    def variant_index(self, enum, variant):
        if enum == "Option":
            return {"None": 0, "Some": 1}[variant]
        if enum == "Result":
            return {"Ok": 0, "Err": 1}[variant]
        if enum == "Ordering":
            return {"Less": -1, "Equal": 0, "Greater": 1}[variant]
        if enum == "ControlFlow":
            return {"Continue": 0, "Break": 1}[variant]
        if enum == "Cow":
            return {"Borrowed": 0, "Owned": 1}[variant]
        if enum == "Bound":
            return {"Included": 0, "Excluded": 1, "Unbounded": 2}[variant]
        if enum == "SeekFrom":
            return {"Start": 0, "End": 1, "Current": 2}[variant]
        if enum in self.enums and variant in self.enums[enum]:
            return self.enums[enum].index(variant)
        raise Unsupported(f"enum variant {enum}::{variant}")

    # ------------------------------------------------------------------ callee resolution
    def resolve(self, callee, cur_crate=None):
        """Find the crate function a callee path denotes, or None (→ std model)."""
        c = callee
        if c.startswith("<") and " as " in c:
            j = match_close(c, 0)
            inner, tail = c[1:j], c[j + 1:]
            ty, tr = inner.rsplit(" as ", 1) if " as " in inner else (inner, None)
            tail = strip_generics(tail).lstrip(":")
            cands = self.by_impl.get((type_base(ty), type_base(tr), tail), [])
            return self._pick(cands, cur_crate)
        if c.startswith("<"):
            j = match_close(c, 0)
            ty, tail = c[1:j], strip_generics(c[j + 1:]).lstrip(":")
            cands = self.by_impl.get((type_base(ty), None, tail), [])
            return self._pick(cands, cur_crate)
        base = strip_generics(c)
        parts = base.split("::")
        if len(parts) >= 2:
            cands = self.by_impl.get((parts[-2], None, parts[-1]), [])
            if cands:
                return self._pick(cands, cur_crate)
            # trait method called through the trait path on a concrete type is not printed this way
        cands = self.by_last.get(parts[-1], [])
        if len(parts) >= 2:
            good = [f for f in cands if f.name == base or f.name.endswith("::" + base) or base.endswith("::" + f.name) or
                    f.name.split("::")[-2:] == parts[-2:]]
            cands = good
        else:
            cands = [f for f in cands if f.name == base or f.name.endswith("::" + base)]
        return self._pick(cands, cur_crate)

    def _pick(self, cands, cur_crate):
        if not cands:
            return None
        if len(cands) == 1:
            return cands[0]
        same = [f for f in cands if f.crate == cur_crate]
        if len(same) == 1:
            return same[0]
        raise Unsupported("ambiguous callee: " + ", ".join(f"{f.crate}:{f.name}" for f in cands))

    def find(self, crate, pattern):
        """Harness helper: the unique function of `crate` whose impl-normalised name equals `pattern`
        (e.g. 'LZDiff::encode', '<Segment as Clone>::clone', 'bytes_to_tuples')."""
        f = self.resolve(pattern, crate)
        if f is None or (f.crate != crate and crate is not None):
            raise Unsupported(f"function not found: {crate}:{pattern}")
        return f
