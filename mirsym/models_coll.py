"""Collection models: HashMap / HashSet / BTreeMap / BTreeSet / BinaryHeap as (ordered) association lists.
Key comparison uses value equality (forking on symbolic keys); iteration order of hash containers is
insertion order (a fixed but arbitrary order — code whose result depends on it is outside the model)."""
import re
import z3
from .values import *
from .values import b_not, b_and, b_or, copy_val, deep_clone
from .mirparse import split_top
from .models import model, load, deref_all, usize, values_eq, values_cmp


class MapObj:
    def __init__(self, ordered=False, is_set=False):
        self.items = []          # [[key, value]]
        self.ordered, self.is_set = ordered, is_set
        self.variant = None

    def clone_obj(self):
        m = MapObj(self.ordered, self.is_set)
        m.items = [[deep_clone(k), deep_clone(v)] for k, v in self.items]
        return m

    def find(self, e, key):
        key = deref_all(e, key) if isinstance(key, Ref) else key
        for i, (k, v) in enumerate(self.items):
            if e.branch(values_eq(e, k, key)):
                return i
        return -1

    def insert(self, e, key, val):
        i = self.find(e, key)
        if i >= 0:
            old = self.items[i][1]; self.items[i][1] = val
            return old
        if self.ordered:
            pos = len(self.items)
            while pos > 0 and values_cmp(e, self.items[pos - 1][0], key) > 0:
                pos -= 1
            self.items.insert(pos, [key, val])
        else:
            self.items.append([key, val])
        return None

    def iter_items(self, e, by_ref, owner):
        out = []
        for i, kv in enumerate(self.items):
            if self.is_set:
                out.append(Ref(Cell(kv[0])) if by_ref else kv[0])
            elif by_ref:
                cell = Cell(Agg(kv, ty="kv"))
                # value refs must alias the stored value: use a live view object
                out.append(Agg([Ref(Cell(kv[0])), ValRef(self, i)], ty="tuple"))
            else:
                out.append(Agg([kv[0], kv[1]], ty="tuple"))
        return out

    def __repr__(self):
        return f"Map{self.items}"


class ValRef(Ref):
    """Reference to the value slot of a map entry."""
    __slots__ = ("m", "i")

    def __init__(self, m, i):
        self.m, self.i = m, i
        Ref.__init__(self, _SlotCell(m, i), ())


class _SlotCell:
    __slots__ = ("m", "i")

    def __init__(self, m, i):
        self.m, self.i = m, i

    @property
    def v(self):
        return self.m.items[self.i][1]

    @v.setter
    def v(self, val):
        self.m.items[self.i][1] = val


MAPT = r"(?:std::collections::)?(?:hash_map::|hash::map::|btree_map::|btree::map::|hash_set::|btree_set::)?(?:HashMap|BTreeMap|AHashMap|HashSet|BTreeSet|AHashSet|FxHashMap|FxHashSet|hashbrown::HashMap|hashbrown::HashSet|DashMap|DashSet)"


def _mk(c):
    ordered = "BTree" in c
    is_set = "Set" in c.split("::<")[0].split(" as ")[0]
    return MapObj(ordered, is_set)


@model(r"^" + MAPT + r"::<.*>::(new|with_capacity|default|with_capacity_and_hasher|with_hasher)$|<" + MAPT + r"<.*> as Default>::default$|^AHash(Map|Set)::<.*>::(new|with_capacity)$")
def map_new(e, c, a):
    return _mk(c)


def _m(e, v):
    v = deref_all(e, v)
    if not isinstance(v, MapObj):
        raise Unsupported(f"map operation on {v!r}")
    return v


@model(r"^" + MAPT + r"::<.*>::insert$|<AHash(Map|Set)<.*> as DerefMut>::deref_mut$|<AHash(Map|Set)<.*> as Deref>::deref$")
def map_insert(e, c, a):
    if c.endswith(("deref", "deref_mut")):
        return a[0]
    m = _m(e, a[0])
    if m.is_set:
        old = m.insert(e, a[1], UNIT)
        return old is None
    old = m.insert(e, a[1], a[2])
    return none() if old is None else some(old)


@model(r"^" + MAPT + r"::<.*>::(get|get_mut|contains_key|contains|remove|get_key_value|take)::<")
def map_get(e, c, a):
    meth = re.search(r">::(\w+)::<", c).group(1)
    obj = deref_all(e, a[0])
    if hasattr(obj, "contains_model") and meth in ("contains", "contains_key"):
        return obj.contains_model(e, deref_all(e, a[1]))
    m = _m(e, a[0])
    i = m.find(e, a[1])
    if meth in ("contains_key", "contains"):
        return i >= 0
    if i < 0:
        return none() if not (m.is_set and meth == "remove") else False
    if meth in ("get", "get_mut"):
        return some(ValRef(m, i)) if not m.is_set else some(Ref(Cell(m.items[i][0])))
    if meth == "get_key_value":
        return some(Agg([Ref(Cell(m.items[i][0])), ValRef(m, i)], ty="tuple"))
    k, v = m.items.pop(i)
    if m.is_set:
        return True if meth == "remove" else some(k)
    return some(v)


@model(r"^" + MAPT + r"::<.*>::(len|is_empty|clear|reserve|shrink_to_fit|capacity)$")
def map_len(e, c, a):
    m = _m(e, a[0]); meth = c.rsplit("::", 1)[1]
    if meth == "len":
        return usize(len(m.items))
    if meth == "is_empty":
        return len(m.items) == 0
    if meth == "clear":
        m.items.clear()
    if meth == "reserve" and len(a) > 1 and isinstance(a[1], Int):
        from .models import check_alloc
        check_alloc(e, a[1], c)
    if meth == "capacity":
        return usize(len(m.items))
    return UNIT


@model(r"^" + MAPT + r"::<.*>::(iter|iter_mut|keys|values|values_mut|into_keys|into_values|drain)$")
def map_iter(e, c, a):
    from .models_iter import ListIt
    m = _m(e, a[0]); meth = c.rsplit("::", 1)[1]
    if meth in ("iter", "iter_mut"):
        return ListIt(m.iter_items(e, True, a[0]))
    if meth == "keys":
        return ListIt([Ref(Cell(k)) for k, v in m.items])
    if meth in ("values", "values_mut"):
        return ListIt([ValRef(m, i) for i in range(len(m.items))])
    if meth == "into_keys":
        return ListIt([k for k, v in m.items])
    if meth == "into_values":
        return ListIt([v for k, v in m.items])
    items = m.iter_items(e, False, None); m.items = []
    return ListIt(items)


class EntryH:
    """Payload of Entry::Occupied / Entry::Vacant."""
    def __init__(self, m, key, idx):
        self.m, self.key, self.idx = m, key, idx
        self.variant = None


@model(r"^" + MAPT + r"::<.*>::entry$")
def map_entry(e, c, a):
    m = _m(e, a[0]); i = m.find(e, a[1])
    return Agg([EntryH(m, a[1], i)], 0 if i >= 0 else 1, "Entry")      # Occupied = 0, Vacant = 1


@model(r"Entry::<.*>::(or_insert|or_insert_with|or_default|and_modify|or_insert_with_key|key)(::<.*>)?$")
def entry_ops(e, c, a):
    meth = re.search(r">::(\w+)(::<.*>)?$", c).group(1)
    h = a[0].f[0]
    m, key = h.m, h.key
    i = m.find(e, key)
    if meth == "key":
        return Ref(Cell(key))
    if meth == "and_modify":
        if i >= 0:
            e.call_closure(a[1], [ValRef(m, i)])
        return a[0]
    if i < 0:
        if meth == "or_insert":
            val = a[1]
        elif meth == "or_insert_with":
            val = e.call_closure(a[1], [])
        else:
            ty = re.search(r"Entry::<'_, (.*)>::or_default", c).group(1)
            from .models import default_value
            vt = split_top(ty)[1]
            val = _mk(vt) if re.match(MAPT, vt.split("<")[0]) else default_value(e, vt)
        m.insert(e, key, val)
        i = m.find(e, key)
    return ValRef(m, i)


@model(r"(Vacant|Occupied)Entry::<.*>::(insert|get|get_mut|into_mut|remove|key|insert_entry)$")
def entry_handle_ops(e, c, a):
    meth = c.rsplit("::", 1)[1]
    h = deref_all(e, a[0])
    m, key = h.m, h.key
    i = m.find(e, key)
    if "VacantEntry" in c:
        if meth == "key":
            return Ref(Cell(key))
        m.insert(e, key, a[1])
        return ValRef(m, m.find(e, key))
    if meth in ("get", "get_mut", "into_mut"):
        return ValRef(m, i)
    if meth == "key":
        return Ref(Cell(m.items[i][0]))
    if meth == "insert":
        old = m.items[i][1]; m.items[i][1] = a[1]; return old
    if meth == "remove":
        return m.items.pop(i)[1]
    raise Unsupported(c)


@model(r"<" + MAPT + r"<.*> as Index<.*>>::index$")
def map_index(e, c, a):
    m = _m(e, a[0]); i = m.find(e, a[1])
    if i < 0:
        raise Panic("explicit_panic", "HashMap::index", "key not found")
    return ValRef(m, i)


@model(r"<" + MAPT + r"<.*> as Clone>::clone$")
def map_clone(e, c, a):
    return _m(e, a[0]).clone_obj()


@model(r"<" + MAPT + r"<.*> as Extend<.*>>::extend::<|^" + MAPT + r"::<.*>::extend::<")
def map_extend(e, c, a):
    from .models_iter import as_iter, drain
    m = _m(e, a[0])
    for x in drain(e, as_iter(e, a[1])):
        if m.is_set:
            m.insert(e, deref_all(e, x) if isinstance(x, Ref) else x, UNIT)
        else:
            m.insert(e, x.f[0], x.f[1])
    return UNIT


@model(r"^" + MAPT + r"::<.*>::(first_key_value|last_key_value|pop_first|pop_last|first|last|range|retain)(::<.*>)?$")
def btree_ops(e, c, a):
    meth = re.search(r">::(\w+)(::<.*>)?$", c).group(1)
    m = _m(e, a[0])
    if meth == "retain":
        keep = []
        for i, (k, v) in enumerate(m.items):
            args = [Ref(Cell(k))] if m.is_set else [Ref(Cell(k)), ValRef(m, i)]
            if e.branch(e.call_closure(a[1], args)):
                keep.append([k, m.items[i][1]])
        m.items = keep
        return UNIT
    if not m.items:
        return none()
    i = 0 if "first" in meth else len(m.items) - 1
    if meth in ("first", "last"):
        return some(Ref(Cell(m.items[i][0])))
    if meth.endswith("key_value"):
        return some(Agg([Ref(Cell(m.items[i][0])), ValRef(m, i)], ty="tuple"))
    if meth.startswith("pop"):
        k, v = m.items.pop(i)
        return some(k if m.is_set else Agg([k, v], ty="tuple"))
    raise Unsupported(c)


def collect_collection(e, base, items, ty):
    if base in ("HashMap", "BTreeMap", "AHashMap", "HashSet", "BTreeSet", "AHashSet"):
        m = MapObj("BTree" in base, "Set" in base)
        for x in items:
            if m.is_set:
                m.insert(e, x, UNIT)
            else:
                m.insert(e, x.f[0], x.f[1])
        return m
    if base == "BinaryHeap":
        h = HeapObj(); h.items = list(items); return h
    raise Unsupported("collect into " + ty)


@model(r"<" + MAPT + r"<.*> as FromIterator<.*>>::from_iter::<")
def map_from_iter(e, c, a):
    from .models_iter import as_iter, drain
    base = re.match(r"<(" + MAPT + ")", c).group(1).split("::")[-1]
    return collect_collection(e, base, drain(e, as_iter(e, a[0])), base)


# ---------------------------------------------------------------------- BinaryHeap
class HeapObj:
    def __init__(self):
        self.items = []

    def clone_obj(self):
        h = HeapObj(); h.items = [deep_clone(x) for x in self.items]; return h

    def iter_items(self, e, by_ref, owner):
        return [Ref(Cell(x)) if by_ref else x for x in self.items]


@model(r"^BinaryHeap::<.*>::(new|with_capacity)$|<BinaryHeap<.*> as Default>::default$")
def heap_new(e, c, a):
    return HeapObj()


@model(r"^BinaryHeap::<.*>::(push|pop|peek|len|is_empty|clear|into_vec|into_sorted_vec|iter|drain)$")
def heap_ops(e, c, a):
    from .models_iter import ListIt
    h = deref_all(e, a[0]); meth = c.rsplit("::", 1)[1]
    if meth == "push":
        h.items.append(a[1]); return UNIT
    if meth == "len":
        return usize(len(h.items))
    if meth == "is_empty":
        return len(h.items) == 0
    if meth == "clear":
        h.items.clear(); return UNIT
    if meth in ("pop", "peek"):
        if not h.items:
            return none()
        # maximum by the real Ord::cmp; among equal maxima the choice is free (std gives no guarantee)
        best = 0
        for k in range(1, len(h.items)):
            if values_cmp(e, h.items[k], h.items[best]) > 0:
                best = k
        ties = [k for k in range(len(h.items)) if k == best or (k > best and values_cmp(e, h.items[k], h.items[best]) == 0)]
        if len(ties) > 1 and getattr(e, "heap_ties_free", False):
            best = ties[e.choose(len(ties))]
        if meth == "peek":
            return some(Ref(Cell(h.items[best])))
        return some(h.items.pop(best))
    if meth == "into_vec":
        return VecObj(h.items)
    if meth in ("iter", "drain"):
        items = list(h.items)
        if meth == "drain":
            h.items = []
        return ListIt([Ref(Cell(x)) for x in items] if meth == "iter" else items)
    raise Unsupported(c)
