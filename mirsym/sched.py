"""Thread model for the symbolic executor: simulated threads are Python threads that run one at a time; every
Mutex::lock / Condvar::wait / notify / thread end is a scheduling point where the next thread is an engine choice
(forked like any other branch). No spurious wake-ups (so that lost wake-ups show up as deadlocks)."""
import re, threading
from .values import *
from .models import model, deref_all, usize

threading.stack_size(256 * 1024 * 1024)


class ThreadAbort(BaseException):
    pass


class SimThread:
    def __init__(self, sched, tid, fn, name):
        self.sched, self.tid, self.fn, self.name = sched, tid, fn, name
        self.sem = threading.Semaphore(0)
        self.state = "ready"          # ready | blocked | done
        self.block = None             # ('mutex', m) | ('cond', cv, m) | ('join',)
        self.py = None
        self.result = None

    def enabled(self):
        if self.state == "done":
            return False
        if self.state == "ready":
            return True
        b = self.block
        if b[0] == "mutex":
            return b[1].owner is None
        if b[0] == "cond":
            return False                      # needs a notify first
        if b[0] == "barrier":
            return b[1].generation != b[2]
        if b[0] == "join":
            who = b[1] if len(b) > 1 and b[1] is not None else [t for t in self.sched.threads if t is not self]
            return all(t.state == "done" for t in who)
        return False


class Sched:
    def __init__(self, e, max_switches=400, max_preempt=None):
        self.e = e
        self.max_preempt = max_preempt      # None: unbounded; n: at most n switches away from a thread that could have continued
        self.preempts = 0
        self.deterministic = False          # True: no choice is ever recorded (always the first candidate): one canonical schedule
        self.threads = []
        self.main = SimThread(self, 0, None, "main")
        self.threads.append(self.main)
        self.current = self.main
        self.abort = False
        self.failure = None
        self.switches = 0
        self.max_switches = max_switches
        self.log = []

    # ---- thread management
    def spawn(self, fn, name=None):
        t = SimThread(self, len(self.threads), fn, name or f"t{len(self.threads)}")
        self.threads.append(t)

        def body():
            t.sem.acquire()
            try:
                if self.abort:
                    return
                t.result = fn()
            except ThreadAbort:
                return
            except BaseException as ex:        # Panic / PropertyViolation / Unsupported ... -> report in main
                if self.failure is None:
                    self.failure = ex
                self.abort = True
                t.state = "done"
                self.main.sem.release()
                return
            t.state = "done"
            self.log.append((t.name, "exit"))
            try:
                self._pick_and_switch(t, finishing=True)
            except ThreadAbort:
                pass
            except BaseException as ex:
                if self.failure is None:
                    self.failure = ex
                self.abort = True
                self.main.sem.release()
        t.py = threading.Thread(target=body, daemon=True)
        t.py.start()
        return t

    def _pick_and_switch(self, cur, finishing=False):
        """Scheduling point reached by `cur` (its state/block already set)."""
        self.switches += 1
        if self.switches > self.max_switches:
            raise BudgetExceeded("scheduler switch budget exceeded")
        en = [t for t in self.threads if t.enabled()]
        if not en:
            if all(t.state == "done" for t in self.threads):
                return
            blocked = [(t.name, t.block[0] if t.block else t.state) for t in self.threads if t.state != "done"]
            raise PropertyViolation("sched:deadlock", f"no thread can run; blocked: {blocked}")
        if cur in en:
            en.remove(cur); en.insert(0, cur)          # choice 0 = the running thread continues
            if self.max_preempt is not None and self.preempts >= self.max_preempt:
                en = [cur]
        k = self.pick(len(en))
        nxt = en[k]
        if cur in en and nxt is not cur:
            self.preempts += 1
        if nxt.state == "blocked":
            b = nxt.block
            if b[0] == "mutex":
                b[1].owner = nxt
            nxt.state, nxt.block = "ready", None
        self.log.append(("run", nxt.name))
        if nxt is cur:
            return
        self.current = nxt
        nxt.sem.release()
        if finishing:
            return
        cur.sem.acquire()
        if self.abort:
            if cur is self.main:
                if self.failure is not None:
                    f, self.failure = self.failure, None
                    raise f
                return
            raise ThreadAbort()

    def pick(self, n):
        if n <= 1 or self.deterministic:
            return 0
        return self.e.choose(n)

    def yield_point(self, e=None, why=""):
        cur = self.current
        self._pick_and_switch(cur)

    def sleep_point(self):
        """thread::sleep in a polling loop: another runnable thread gets the processor (a free choice that does not count
        as a preemption). If nobody else can run, the poller's condition can never change: after a few idle rounds that is
        a livelock (the poll would spin forever)."""
        cur = self.current
        others = [t for t in self.threads if t is not cur and t.enabled()]
        if not others:
            self.idle_sleeps = getattr(self, "idle_sleeps", 0) + 1
            if self.idle_sleeps > 3:
                blocked = [(t.name, t.block[0] if t.block else t.state) for t in self.threads if t.state != "done" and t is not cur]
                raise PropertyViolation("sched:livelock", f"{cur.name} polls in a sleep loop while no other thread can run; others: {blocked}")
            return
        self.idle_sleeps = 0
        self.switches += 1
        if self.switches > self.max_switches:
            raise BudgetExceeded("scheduler switch budget exceeded")
        k = self.pick(len(others))
        nxt = others[k]
        if nxt.state == "blocked":
            b = nxt.block
            if b[0] == "mutex":
                b[1].owner = nxt
            nxt.state, nxt.block = "ready", None
        self.log.append((cur.name, "sleep")); self.log.append(("run", nxt.name))
        self.current = nxt
        nxt.sem.release()
        cur.sem.acquire()
        if self.abort:
            if cur is self.main:
                if self.failure is not None:
                    f, self.failure = self.failure, None
                    raise f
                return
            raise ThreadAbort()

    def block_on(self, what):
        cur = self.current
        cur.state, cur.block = "blocked", what
        self._pick_and_switch(cur)

    def join_all(self, who=None):
        """The current thread waits until the given (default: all other) threads have finished."""
        ts = who if who is not None else [t for t in self.threads if t is not self.current]
        if all(t.state == "done" for t in ts):
            return
        self.block_on(("join", who))

    def shutdown(self):
        self.abort = True
        for t in self.threads:
            if t.py is not None and t.py.is_alive():
                t.sem.release()
        for t in self.threads:
            if t.py is not None:
                t.py.join(timeout=5)


def _sched(e):
    s = getattr(e, "sched", None)
    if s is None:
        raise Unsupported("synchronisation primitive used without a scheduler (harness must install e.sched)")
    return s


# ---------------------------------------------------------------------- sync objects
class MutexObj:
    def __init__(self, v):
        self.cell = Cell(v)
        self.owner = None
        self.variant = None


class GuardObj:
    def __init__(self, m):
        self.m = m
        self.released = False
        self.variant = None

    def deref_target(self, e):
        return self.m.cell, ()

    def on_drop(self, e):
        if not self.released:
            self.released = True
            self.m.owner = None
            s = getattr(e, "sched", None)
            if s is not None:
                s.log.append((s.current.name, "unlock"))


class CondvarObj:
    def __init__(self):
        self.waiters = []
        self.variant = None


@model(r"^Mutex::<.*>::new$|^std::sync::Mutex::<.*>::new$|^(std::sync::)?RwLock::<.*>::new$")
def mutex_new(e, c, a):
    return MutexObj(a[0])


@model(r"^Mutex::<.*>::lock$|^std::sync::Mutex::<.*>::lock$|^(std::sync::)?RwLock::<.*>::(read|write)$")
def mutex_lock(e, c, a):
    m = deref_all(e, a[0])
    s = getattr(e, "sched", None)
    if s is None:                       # single-threaded use (no scheduler installed): lock always succeeds
        if m.owner is not None:
            raise PropertyViolation("sched:self_deadlock", "mutex locked twice by the only thread")
        m.owner = "main"
        return ok(GuardObj(m))
    cur = s.current
    s.log.append((cur.name, "lock?"))
    if m.owner is cur:
        raise PropertyViolation("sched:self_deadlock", f"{cur.name} locks a mutex it already holds")
    # scheduling point before the acquisition; the thread becomes runnable again only when the mutex is free
    s.block_on(("mutex", m))
    if m.owner is not s.current:
        m.owner = s.current
    return ok(GuardObj(m))


@model(r"^Mutex::<.*>::(into_inner|get_mut)$")
def mutex_into_inner(e, c, a):
    m = deref_all(e, a[0])
    return ok(m.cell.v) if c.endswith("into_inner") else ok(Ref(m.cell))


@model(r"<(std::sync::)?MutexGuard<'_, .*> as Deref(Mut)?>::deref(_mut)?$|<(std::sync::)?RwLock(Read|Write)Guard<'_, .*> as Deref(Mut)?>::deref(_mut)?$")
def guard_deref(e, c, a):
    g = deref_all(e, a[0])
    return Ref(g.m.cell)


@model(r"^Condvar::new$|^std::sync::Condvar::new$")
def condvar_new(e, c, a):
    return CondvarObj()


@model(r"^Condvar::wait::<|^std::sync::Condvar::wait::<|^Condvar::wait$")
def condvar_wait(e, c, a):
    cv = deref_all(e, a[0]); g = a[1]
    if getattr(e, "sched", None) is None:
        raise PropertyViolation("sched:deadlock", "the only thread waits on a condition variable (blocks forever)")
    s = _sched(e)
    cur = s.current
    g.released = True
    g.m.owner = None
    cv.waiters.append(cur)
    s.log.append((cur.name, "wait"))
    s.block_on(("cond", cv, g.m))
    # woken by a notify: the scheduler re-acquired the mutex for us (block changed to 'mutex' by notify)
    if g.m.owner is not s.current:
        g.m.owner = s.current
    return ok(GuardObj(g.m))


@model(r"^(std::sync::)?Condvar::wait_while::<")
def condvar_wait_while(e, c, a):
    """std semantics: while condition(&mut *guard) { guard = self.wait(guard)? }"""
    cv, g, clo = a[0], a[1], a[2]
    while True:
        r = e.call_closure(clo, [Ref(g.m.cell)])
        if not e.branch(r):
            return ok(g)
        g = condvar_wait(e, "Condvar::wait", [cv, g]).f[0]


@model(r"^Condvar::notify_(one|all)$|^std::sync::Condvar::notify_(one|all)$")
def condvar_notify(e, c, a):
    cv = deref_all(e, a[0])
    if not cv.waiters:
        return UNIT
    s = _sched(e)
    if c.endswith("notify_all"):
        woken, cv.waiters = cv.waiters, []
    else:
        k = s.pick(len(cv.waiters))      # which waiter wakes is not specified
        woken = [cv.waiters.pop(k)]
    for t in woken:
        t.block = ("mutex", t.block[2])          # must re-acquire the mutex before returning from wait
        s.log.append((s.current.name, "notify", t.name))
    return UNIT


@model(r"<PoisonError<.*> as (Debug|Display)>::fmt|^PoisonError::<.*>::into_inner$")
def poison(e, c, a):
    return ok(UNIT)


@model(r"^(std::sync::atomic::)?Atomic(U64|Usize|U32|Bool|I32|I64)::(new|load|store|fetch_add|fetch_sub|swap|compare_exchange)$|^Atomic::<.*>::(new|load|store|fetch_add|fetch_sub|swap)$")
def atomics(e, c, a):
    m = c.rsplit("::", 1)[1]
    if m == "new":
        return Agg([a[0]], ty="Atomic")
    at = deref_all(e, a[0])
    if isinstance(at, FnItem) or not isinstance(at, Agg):
        # statics (statistics counters): not observable by any property here
        return Int(64, 0, 0) if m != "store" else UNIT
    old = at.f[0]
    if m == "load":
        return old
    if m == "store":
        at.f[0] = a[1]; return UNIT
    if m == "swap":
        at.f[0] = a[1]; return old
    at.f[0] = e.binop("Add" if m == "fetch_add" else "Sub", old, a[1])
    return old
