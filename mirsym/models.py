"""Native models of the std / dependency surface reached from the ragc crates (std MIR is not in the dump).
Every model is part of the trusted base; evidence lists the ones a verdict depended on."""
import re
import z3
from .values import *
from .values import mk, mkbool, zbool, b_not, b_and, b_or, copy_val, deep_clone
from .mirparse import split_top, match_close, strip_generics, type_base

MODELS = []


def model(pattern, name=None):
    def deco(fn):
        MODELS.append((name or fn.__name__, re.compile(pattern), fn))
        return fn
    return deco


def load(e, v):
    return e.load(v) if isinstance(v, Ref) else v


def deref_all(e, v):
    while isinstance(v, Ref):
        v = e.load(v)
    return v


def I(w, v, s=0):
    return Int(w, s, v)


def usize(v):
    return Int(64, 0, v)


def ite_int(c, a, b):
    """If-term over two Ints (no fork)."""
    if isinstance(c, bool):
        return a if c else b
    av, bv = a.valset(), b.valset()
    return mk(a.w, a.s, z3.If(c, a.z(), b.z()), min(a.lo, b.lo), max(a.hi, b.hi), (av | bv) if av is not None and bv is not None else None)


# ====================================================================== formatting / debug output (no-ops)
@model(r"core::fmt::rt::Argument::<'_>::new_\w+")
def fmt_argument(e, c, a):
    return Opaque("fmtarg", (c.split("::new_")[1].split("::")[0], a[0]))


@model(r"^(std::fmt::|core::fmt::)?Arguments::<'_>::(new|from_str|new_const|new_v1)")
def fmt_arguments(e, c, a):
    return Opaque("fmtargs", a)


def _display(e, v):
    """Display rendering as a list of byte Ints (symbolic string contents allowed); None when not renderable."""
    v = deref_all(e, v)
    if isinstance(v, Int):
        if not v.conc():
            return None
        return [Int(8, 0, b) for b in str(v.sval()).encode()]
    if isinstance(v, (VecObj, Slice)):
        l, lo, hi = e.seq_of(v)
        return list(l[lo:hi])
    if isinstance(v, bool):
        return [Int(8, 0, b) for b in (b"true" if v else b"false")]
    return None


def render_format(e, fa):
    """Best-effort rendering of a fmt::Arguments token into byte Ints; None when not renderable."""
    if not isinstance(fa, Opaque) or fa.tag != "fmtargs":
        return None
    args = fa.data
    try:
        if len(args) == 1:
            l, lo, hi = e.seq_of(args[0]); return list(l[lo:hi])
        tmpl = bytes(x.v for x in e.seq_of(args[0])[0])
        l, lo, hi = e.seq_of(args[1])
        argv = l[lo:hi]
    except Exception:
        return None
    out = []; i = 0; ai = 0
    while i < len(tmpl):
        b = tmpl[i]
        if b == 0:
            break
        if b < 0x80:
            out += [Int(8, 0, x) for x in tmpl[i + 1:i + 1 + b]]; i += 1 + b
        elif b == 0xC0:
            if ai >= len(argv) or not isinstance(argv[ai], Opaque):
                return None
            kind, val = argv[ai].data
            if kind not in ("display",):
                return None
            r = _display(e, val)
            if r is None:
                return None
            out += r; ai += 1; i += 1
        else:
            return None
    return out


@model(r"^(std::fmt::|alloc::fmt::)?format$|^std::fmt::format$|^alloc::fmt::format$")
def fmt_format(e, c, a):
    r = render_format(e, a[0])
    if r is None:
        return Opaque("fmtstring")
    return VecObj(r, "String")


@model(r"std::io::_eprint$|std::io::_print$|^std::io::stdio::_e?print$")
def io_print(e, c, a):
    if c.endswith("_print") and getattr(e, "stdout", None) is not None:
        r = render_format(e, a[0])
        e.stdout.append(r)
    return UNIT


@model(r"^must_use::<")
def must_use(e, c, a):
    return a[0]


@model(r"^black_box::<|^std::hint::black_box|^core::hint::black_box")
def black_box(e, c, a):
    return a[0]


# ====================================================================== Vec / slices
@model(r"impl \[.*\]>::len$|^Vec::<.*>::len$|^String::len$|<impl str>::len$|^VecDeque::<.*>::len$|^str::len$")
def seq_len(e, c, a):
    l, lo, hi = e.seq_of(a[0]); return usize(hi - lo)


@model(r"impl \[.*\]>::is_empty$|^Vec::<.*>::is_empty$|^String::is_empty$|<impl str>::is_empty$|^VecDeque::<.*>::is_empty$")
def seq_is_empty(e, c, a):
    l, lo, hi = e.seq_of(a[0]); return hi == lo


@model(r"^Vec::<.*>::new$|^Vec::<.*>::with_capacity$|^VecDeque::<.*>::(new|with_capacity)$|<Vec<.*> as Default>::default$")
def vec_new(e, c, a):
    if a and isinstance(a[0], Int):
        check_alloc(e, a[0], c)
    return VecObj([])


@model(r"^String::new$|^String::with_capacity$|<String as Default>::default$")
def string_new(e, c, a):
    return VecObj([], "String")


@model(r"^Vec::<.*>::push$|^VecDeque::<.*>::push_back$")
def vec_push(e, c, a):
    e.load(a[0]).e.append(a[1]); return UNIT


@model(r"^VecDeque::<.*>::push_front$")
def vecdeque_push_front(e, c, a):
    e.load(a[0]).e.insert(0, a[1]); return UNIT


@model(r"^Vec::<.*>::pop$|^VecDeque::<.*>::pop_back$")
def vec_pop(e, c, a):
    v = e.load(a[0]); return some(v.e.pop()) if v.e else none()


@model(r"^VecDeque::<.*>::pop_front$")
def vecdeque_pop_front(e, c, a):
    v = e.load(a[0]); return some(v.e.pop(0)) if v.e else none()


@model(r"^String::push$")
def string_push(e, c, a):
    ch = a[1]
    if ch.conc() and ch.v >= 0x80:
        e.load(a[0]).e.extend(Int(8, 0, b) for b in chr(ch.v).encode())
    else:
        if not ch.conc():
            e.assume(z3.ULT(ch.z(), 0x80))       # ASCII: recorded as a model assumption
            e.notes["assume_ascii_char"] = True
        e.load(a[0]).e.append(e.cast("IntToInt", ch, "u8"))
    return UNIT


@model(r"^String::push_str$|^Vec::<.*>::extend_from_slice$")
def extend_from_slice(e, c, a):
    l, lo, hi = e.seq_of(a[1]); e.load(a[0]).e.extend(copy_val(x) for x in l[lo:hi]); return UNIT


@model(r"vec::from_elem")
def vec_from_elem(e, c, a):
    n = a[1]
    lim = getattr(e, "alloc_limit", None)
    if not n.conc():
        if lim is None:
            raise Unsupported("vec![x; n] with symbolic n")
        nv = e.concretize(n, lim)
    else:
        nv = n.v
    if lim is not None and nv > lim:
        raise Panic("alloc_unbounded", "vec::from_elem", f"allocation of {nv if n.conc() else '> ' + str(lim)} elements is not bounded by the input size ({lim})")
    if nv > 1 << 20:
        raise Unsupported(f"vec![x; {nv}] too large for the model (allocation size)")
    return VecObj([deep_clone(a[0]) for _ in range(nv)])


@model(r"^Box::<.*>::new_uninit$")
def box_new_uninit(e, c, a):
    return Ref(Cell(None))


@model(r"box_assume_init_into_vec_unsafe|<impl \[.*\]>::into_vec")
def box_into_vec(e, c, a):
    v = e.load(a[0]) if isinstance(a[0], Ref) else a[0]
    return VecObj(list(v.f) if isinstance(v, Agg) else list(v.e))


@model(r"^Box::<.*>::new$|^Arc::<.*>::new$|^Rc::<.*>::new$|^std::sync::Arc::<.*>::new$")
def box_new(e, c, a):
    return Ref(Cell(a[0]))


@model(r"<Arc<.*> as Clone>::clone$|<Rc<.*> as Clone>::clone$|^Arc::<.*>::clone$")
def arc_clone(e, c, a):
    return e.load(a[0])


@model(r"<Arc<.*> as Deref>::deref$|<Box<.*> as Deref(Mut)?>::deref(_mut)?$|<Rc<.*> as Deref>::deref$|<Arc<.*> as AsRef<.*>>::as_ref$")
def arc_deref(e, c, a):
    return e.load(a[0])


@model(r"^<Vec<.*> as Deref(Mut)?>::deref(_mut)?$|^Vec::<.*>::as_slice$|^Vec::<.*>::as_mut_slice$|<String as Deref(Mut)?>::deref(_mut)?$|"
       r"^String::as_str$|^String::as_bytes$|<impl str>::as_bytes$|^str::as_bytes$|^<Vec<.*> as AsRef<\[.*\]>>::as_ref$|<String as AsRef<str>>::as_ref$|"
       r"<\[.*\] as AsRef<\[.*\]>>::as_ref$|<str as AsRef<str>>::as_ref$|<String as Borrow<str>>::borrow$|^<Vec<.*> as Borrow<\[.*\]>>::borrow$|"
       r"<String as AsRef<\[u8\]>>::as_ref$|<str as AsRef<\[u8\]>>::as_ref$|^Vec::<.*>::as_ptr$|<impl \[.*\]>::as_ptr$|<impl \[.*\]>::as_mut_ptr$|^Vec::<.*>::as_mut_ptr$")
def as_slice_model(e, c, a):
    return e.as_slice(a[0])


@model(r"<Vec<.*> as Clone>::clone$|<PathBuf as Clone>::clone$|impl \[.*\]>::to_vec$|<String as Clone>::clone$|<impl str>::to_string$|<str as ToString>::to_string$|"
       r"<str as ToOwned>::to_owned$|<\[.*\] as ToOwned>::to_owned$|<String as From<&str>>::from$|<impl str>::to_owned$|<String as ToString>::to_string$|"
       r"<Vec<.*> as From<&\[.*\]>>::from$|<&str as Into<String>>::into$|<String as From<&String>>::from$|<VecDeque<.*> as Clone>::clone$")
def seq_clone(e, c, a):
    l, lo, hi = e.seq_of(a[0])
    kind = "String" if ("str" in c.lower() and "Vec<" not in c and "[" not in c.split(" as ")[0]) else "Vec"
    return VecObj([deep_clone(x) for x in l[lo:hi]], kind)


@model(r"^String::from_utf8$|^std::str::from_utf8$|^core::str::from_utf8$")
def from_utf8(e, c, a):
    l, lo, hi = e.seq_of(a[0])
    for x in l[lo:hi]:
        if x.conc():
            if x.v >= 0x80:
                raise Unsupported("non-ASCII byte in from_utf8 (model is ASCII-only)")
        else:
            e.assume(z3.ULT(x.z(), 0x80)); e.notes["assume_ascii_utf8"] = True
    if c.startswith("String"):
        v = a[0]; v.kind = "String"; return ok(v)
    return ok(e.as_slice(a[0]))


@model(r"^String::from_utf8_lossy$")
def from_utf8_lossy(e, c, a):
    l, lo, hi = e.seq_of(a[0])
    items = l[lo:hi]
    for x in items:
        if not x.conc():
            e.assume(z3.ULT(x.z(), 0x80)); e.notes["assume_ascii_utf8"] = True
    if not any(x.conc() and x.v >= 0x80 for x in items):
        return Agg([e.as_slice(a[0])], 0, "Cow")
    # concrete non-ASCII bytes: decode every maximal run of them as UTF-8, replacing ill-formed subsequences by U+FFFD (std semantics);
    # symbolic bytes are ASCII (assumed above) and therefore always delimit such runs
    out, i = [], 0
    while i < len(items):
        if items[i].conc() and items[i].v >= 0x80:
            j = i
            while j < len(items) and items[j].conc() and items[j].v >= 0x80:
                j += 1
            out += [Int(8, 0, b) for b in bytes(x.v for x in items[i:j]).decode("utf-8", "replace").encode("utf-8")]
            i = j
        else:
            out.append(items[i]); i += 1
    e.notes["utf8_lossy"] = "ill-formed UTF-8 replaced by U+FFFD"
    return Agg([VecObj(out, "String")], 1, "Cow")


@model(r"<Cow<'_, str> as ToString>::to_string$|^Cow::<'_, str>::into_owned$|<Cow<'_, str> as Deref>::deref$")
def cow_to_string(e, c, a):
    v = deref_all(e, a[0])
    inner = v.f[0]
    if c.endswith("deref"):
        return e.as_slice(inner)
    l, lo, hi = e.seq_of(inner)
    return VecObj(l[lo:hi], "String")


@model(r"^String::into_bytes$|^String::from_utf8_unchecked$|<Vec<u8> as From<String>>::from$|^String::into_boxed_str$")
def string_into_bytes(e, c, a):
    a[0].kind = "Vec" if "into_bytes" in c or "Vec<u8>" in c else "String"
    return a[0]


@model(r"^Vec::<.*>::resize$")
def vec_resize(e, c, a):
    v = e.load(a[0]); n = a[1]
    if not n.conc():
        raise Unsupported("Vec::resize with symbolic length")
    if n.v > 1 << 20:
        raise Unsupported(f"Vec::resize to {n.v}: too large for the model")
    if n.v <= len(v.e):
        del v.e[n.v:]
    else:
        v.e.extend(deep_clone(a[2]) for _ in range(n.v - len(v.e)))
    return UNIT


@model(r"^Vec::<.*>::truncate$|^String::truncate$")
def vec_truncate(e, c, a):
    v = e.load(a[0]); n = e.concretize(a[1], len(v.e))
    if n < len(v.e):
        del v.e[n:]
    return UNIT


@model(r"^Vec::<.*>::clear$|^String::clear$|^VecDeque::<.*>::clear$")
def vec_clear(e, c, a):
    e.load(a[0]).e.clear(); return UNIT


def check_alloc(e, n, what):
    """Allocation request of n elements: with an allocation limit set by the harness, a request that can exceed it is a finding."""
    lim = getattr(e, "alloc_limit", None)
    if lim is None:
        return
    if not e.branch(e.binop("Le", n, Int(n.w, n.s, lim))):
        raise Panic("alloc_unbounded", what, f"allocation request is not bounded by the input size ({lim})")


@model(r"^Vec::<.*>::reserve(_exact)?$|^String::reserve$|^Vec::<.*>::shrink_to_fit$|^VecDeque::<.*>::reserve$")
def vec_reserve(e, c, a):
    if len(a) > 1 and isinstance(a[1], Int):
        check_alloc(e, a[1], c)
    return UNIT


@model(r"^Vec::<.*>::capacity$")
def vec_capacity(e, c, a):
    return usize(len(e.load(a[0]).e))


@model(r"^Vec::<.*>::insert$")
def vec_insert(e, c, a):
    v = e.load(a[0]); i = e.concretize(a[1], len(v.e))
    if i > len(v.e):
        raise Panic("index_oob", "Vec::insert", "insertion index out of bounds")
    v.e.insert(i, a[2]); return UNIT


@model(r"^Vec::<.*>::remove$")
def vec_remove(e, c, a):
    v = e.load(a[0]); i = e.concretize(a[1], len(v.e))
    if i >= len(v.e):
        raise Panic("index_oob", "Vec::remove", "removal index out of bounds")
    return v.e.pop(i)


@model(r"^Vec::<.*>::swap_remove$")
def vec_swap_remove(e, c, a):
    v = e.load(a[0]); i = e.concretize(a[1], len(v.e))
    if i >= len(v.e):
        raise Panic("index_oob", "Vec::swap_remove", "index out of bounds")
    x = v.e[i]; last = v.e.pop()
    if i < len(v.e):
        v.e[i] = last
    return x


@model(r"^Vec::<.*>::append$")
def vec_append(e, c, a):
    v = e.load(a[0]); o = e.load(a[1]); v.e.extend(o.e); o.e.clear(); return UNIT


@model(r"^Vec::<.*>::last$|impl \[.*\]>::last$|^Vec::<.*>::last_mut$|impl \[.*\]>::last_mut$")
def seq_last(e, c, a):
    sl = e.as_slice(a[0])
    return some(e.elem_ref(sl, sl.hi - sl.lo - 1)) if sl.hi > sl.lo else none()


@model(r"^Vec::<.*>::first$|impl \[.*\]>::first$|impl \[.*\]>::first_mut$")
def seq_first(e, c, a):
    sl = e.as_slice(a[0])
    return some(e.elem_ref(sl, 0)) if sl.hi > sl.lo else none()


@model(r"impl \[.*\]>::get(::<usize>)?$|^Vec::<.*>::get(::<usize>)?$|impl \[.*\]>::get_mut(::<usize>)?$|^Vec::<.*>::get_mut(::<usize>)?$")
def seq_get(e, c, a):
    sl = e.as_slice(a[0]); i = a[1]
    n = sl.hi - sl.lo
    if isinstance(i, Agg):       # range
        raise Unsupported("slice.get(range)")
    if not e.branch(e.binop("Lt", i, usize(n))):
        return none()
    return some(Ref(sl.cell, sl.path + (("i", (sl.lo + i.v) if i.conc() else e.binop("Add", i, usize(sl.lo))),)))


def _range_bounds(e, r, n):
    """(start, end) python ints of a range-like Agg against length n, forking on symbolic bounds."""
    ty = r.ty
    if ty == "Range":
        st, en = r.f[0], r.f[1]
    elif ty == "RangeFrom":
        st, en = r.f[0], usize(n)
    elif ty == "RangeTo":
        st, en = usize(0), r.f[0]
    elif ty == "RangeFull":
        st, en = usize(0), usize(n)
    elif ty == "RangeInclusive":
        st, en = r.f[0], e.binop("Add", r.f[1], usize(1))
    elif ty == "RangeToInclusive":
        st, en = usize(0), e.binop("Add", r.f[0], usize(1))
    else:
        raise Unsupported("range type " + ty)
    s = e.concretize(st, n)
    t = e.concretize(en, n)
    return s, t


@model(r" as Index(Mut)?<(std::ops::)?Range(From|To|Full|Inclusive|ToInclusive)?(<usize>)?>>::index(_mut)?$")
def index_range(e, c, a):
    sl = e.as_slice(a[0]); n = sl.hi - sl.lo
    s, t = _range_bounds(e, a[1], n)
    if s > t:
        raise Panic("slice_index", c.split(">::")[0][-40:], f"slice index starts at {s} but ends at {t}")
    if t > n:
        raise Panic("slice_index", "index", f"range end index {t} out of range for slice of length {n}")
    return Slice(sl.cell, sl.path, sl.lo + s, sl.lo + t)


@model(r" as Index(Mut)?<usize>>::index(_mut)?$")
def index_usize(e, c, a):
    sl = e.as_slice(a[0]); i = a[1]; n = sl.hi - sl.lo
    if not e.branch(e.binop("Lt", i, usize(n))):
        raise Panic("index_oob", "Index<usize>", f"index out of bounds: len {n}")
    return Ref(sl.cell, sl.path + (("i", (sl.lo + i.v) if i.conc() else (e.binop("Add", i, usize(sl.lo)) if sl.lo else i)),))


@model(r"impl \[.*\]>::split_at(_mut)?$|<impl str>::split_at$")
def split_at(e, c, a):
    sl = e.as_slice(a[0]); n = sl.hi - sl.lo
    m = e.concretize(a[1], n)
    if m > n:
        raise Panic("slice_index", "split_at", "mid > len")
    return Agg([Slice(sl.cell, sl.path, sl.lo, sl.lo + m), Slice(sl.cell, sl.path, sl.lo + m, sl.hi)], ty="tuple")


@model(r"impl \[.*\]>::reverse$")
def slice_reverse(e, c, a):
    l, lo, hi = e.seq_of(a[0]); l[lo:hi] = l[lo:hi][::-1]; return UNIT


@model(r"impl \[.*\]>::swap$")
def slice_swap(e, c, a):
    l, lo, hi = e.seq_of(a[0])
    i = e.concretize(a[1], hi - lo); j = e.concretize(a[2], hi - lo)
    if i >= hi - lo or j >= hi - lo:
        raise Panic("index_oob", "swap", "index out of bounds")
    l[lo + i], l[lo + j] = l[lo + j], l[lo + i]; return UNIT


@model(r"impl \[.*\]>::copy_from_slice$|impl \[.*\]>::clone_from_slice$")
def copy_from_slice(e, c, a):
    l, lo, hi = e.seq_of(a[0]); m, mlo, mhi = e.seq_of(a[1])
    if hi - lo != mhi - mlo:
        raise Panic("len_mismatch", "copy_from_slice", "source slice length does not match destination")
    l[lo:hi] = [copy_val(x) for x in m[mlo:mhi]]; return UNIT


@model(r"impl \[.*\]>::fill$")
def slice_fill(e, c, a):
    l, lo, hi = e.seq_of(a[0])
    for k in range(lo, hi):
        l[k] = copy_val(a[1])
    return UNIT


@model(r"impl \[.*\]>::contains$")
def slice_contains(e, c, a):
    l, lo, hi = e.seq_of(a[0]); x = deref_all(e, a[1])
    r = False
    for y in l[lo:hi]:
        r = b_or(r, values_eq(e, y, x))
    return r


@model(r"impl \[.*\]>::starts_with$|<impl str>::starts_with::<&str>$|impl \[.*\]>::ends_with$|<impl str>::ends_with::<&str>$")
def seq_starts_with(e, c, a):
    l, lo, hi = e.seq_of(a[0]); m, mlo, mhi = e.seq_of(a[1])
    n = mhi - mlo
    if n > hi - lo:
        return False
    base = lo if "starts_with" in c else hi - n
    r = True
    for k in range(n):
        r = b_and(r, e.binop("Eq", l[base + k], m[mlo + k]))
    return r


@model(r"impl \[.*\]>::concat|impl \[.*\]>::join")
def slice_concat(e, c, a):
    l, lo, hi = e.seq_of(a[0]); out = []
    sep = e.seq_of(a[1]) if len(a) > 1 else None
    for k in range(lo, hi):
        m, mlo, mhi = e.seq_of(l[k] if not isinstance(l[k], VecObj) else l[k])
        if sep and k > lo:
            out.extend(sep[0][sep[1]:sep[2]])
        out.extend(m[mlo:mhi])
    return VecObj(out, "String" if "String" in c or "str" in c else "Vec")


# ---------------------------------------------------------------------- equality / ordering on values
def values_eq(e, x, y):
    x = deref_all(e, x) if isinstance(x, Ref) else x
    y = deref_all(e, y) if isinstance(y, Ref) else y
    if isinstance(x, Int):
        return e.binop("Eq", x, y)
    if isinstance(x, bool) or z3.is_expr(x):
        return e.binop("Eq", x, y)
    if isinstance(x, (VecObj, Slice)) or isinstance(y, (VecObj, Slice)):
        l, lo, hi = e.seq_of(x); m, mlo, mhi = e.seq_of(y)
        if hi - lo != mhi - mlo:
            return False
        r = True
        for k in range(hi - lo):
            r = b_and(r, values_eq(e, l[lo + k], m[mlo + k]))
            if r is False:
                return False
        return r
    if isinstance(x, Agg):
        if not isinstance(y, Agg) or x.variant != y.variant or len(x.f) != len(y.f):
            return False
        f = e.p.by_impl.get((x.ty, "PartialEq", "eq"))
        if f and len(f) == 1:
            return e.run_func(f[0], [Ref(Cell(x)), Ref(Cell(y))])
        r = True
        for u, v in zip(x.f, y.f):
            r = b_and(r, values_eq(e, u, v))
            if r is False:
                return False
        return r
    if isinstance(x, float):
        return x == y
    raise Unsupported(f"equality on {x!r}")


def values_cmp(e, x, y):
    """Ordering (-1,0,1) of two values; forks on symbolic comparisons. Uses the crate's Ord impl for its types."""
    x = deref_all(e, x) if isinstance(x, Ref) else x
    y = deref_all(e, y) if isinstance(y, Ref) else y
    if isinstance(x, Int):
        if e.branch(e.binop("Lt", x, y)):
            return -1
        return 0 if e.branch(e.binop("Eq", x, y)) else 1
    if isinstance(x, bool) or z3.is_expr(x):
        return values_cmp(e, e.cast("IntToInt", x, "u8"), e.cast("IntToInt", y, "u8"))
    if isinstance(x, float):
        return (x > y) - (x < y)
    if isinstance(x, (VecObj, Slice)):
        l, lo, hi = e.seq_of(x); m, mlo, mhi = e.seq_of(y)
        for k in range(min(hi - lo, mhi - mlo)):
            r = values_cmp(e, l[lo + k], m[mlo + k])
            if r:
                return r
        return ((hi - lo) > (mhi - mlo)) - ((hi - lo) < (mhi - mlo))
    if isinstance(x, Agg):
        for tr, meth in (("Ord", "cmp"), ("PartialOrd", "partial_cmp")):
            f = e.p.by_impl.get((x.ty, tr, meth))
            if f and len(f) == 1:
                r = e.run_func(f[0], [Ref(Cell(x)), Ref(Cell(y))])
                if meth == "partial_cmp":
                    r = r.f[0]
                return r.variant
        if x.variant is not None and x.variant != y.variant:
            return (x.variant > y.variant) - (x.variant < y.variant)
        for u, v in zip(x.f, y.f):
            r = values_cmp(e, u, v)
            if r:
                return r
        return 0
    raise Unsupported(f"ordering on {x!r}")


def ordering(v):
    return Agg([], v, "Ordering")


@model(r" as PartialEq(<.*>)?>::eq$| as PartialEq(<.*>)?>::ne$")
def partial_eq(e, c, a):
    r = values_eq(e, a[0], a[1])
    return b_not(r) if c.endswith("::ne") else r


@model(r" as Ord>::cmp$| as PartialOrd(<.*>)?>::partial_cmp$")
def ord_cmp(e, c, a):
    r = ordering(values_cmp(e, a[0], a[1]))
    return some(r) if c.endswith("partial_cmp") else r


@model(r" as PartialOrd(<.*>)?>::(lt|le|gt|ge)$")
def partial_ord_rel(e, c, a):
    x, y = deref_all(e, a[0]), deref_all(e, a[1])
    op = c.rsplit("::", 1)[1]
    if isinstance(x, Int):
        return e.binop(op.capitalize(), x, y)
    r = values_cmp(e, x, y)
    return {"lt": r < 0, "le": r <= 0, "gt": r > 0, "ge": r >= 0}[op]


@model(r"<(usize|u8|u16|u32|u64|i8|i16|i32|i64|isize|u128|i128) as Ord>::(min|max)$|^std::cmp::(min|max)::<[iu]\w+>$|^core::cmp::(min|max)::<[iu]\w+>$|^(min|max)::<[iu](8|16|32|64|128|size)>$")
def int_minmax(e, c, a):
    x, y = a[0], a[1]
    le = e.binop("Le", x, y)
    ismin = re.search(r"min(::<.*>)?$", c) is not None
    return ite_int(le, x, y) if ismin else ite_int(le, y, x)


@model(r"^Ordering::(reverse|then|then_with|is_\w+)|<Ordering as PartialEq>::eq")
def ordering_ops(e, c, a):
    v = deref_all(e, a[0])
    m = c.rsplit("::", 1)[1]
    if m == "reverse":
        return ordering(-v.variant)
    if m == "then":
        return v if v.variant != 0 else a[1]
    if m == "then_with":
        return v if v.variant != 0 else e.call_closure(a[1], [])
    if m == "eq":
        return v.variant == deref_all(e, a[1]).variant
    return {"is_eq": v.variant == 0, "is_ne": v.variant != 0, "is_lt": v.variant < 0, "is_gt": v.variant > 0,
            "is_le": v.variant <= 0, "is_ge": v.variant >= 0}[m]


# ====================================================================== integers
@model(r"::wrapping_(add|sub|mul|neg|shl|shr)$")
def int_wrapping(e, c, a):
    op = c.rsplit("wrapping_", 1)[1]
    if op == "neg":
        return e.rvalue(None, ("unop", "Neg", None)) if False else (Int(a[0].w, a[0].s, -a[0].sval()) if a[0].conc() else mk(a[0].w, a[0].s, -a[0].v))
    return e.binop({"add": "Add", "sub": "Sub", "mul": "Mul", "shl": "Shl", "shr": "Shr"}[op], a[0], a[1])


@model(r"::saturating_(add|sub|mul)$")
def int_saturating(e, c, a):
    op = c.rsplit("saturating_", 1)[1]
    r = e.checked(op.capitalize(), a[0], a[1])
    val, ov = r.f
    w, s = a[0].w, a[0].s
    if s:
        hi, lo = Int(w, s, (1 << (w - 1)) - 1), Int(w, s, -(1 << (w - 1)))
        if op == "sub":
            sat = ite_int(e.binop("Lt", a[1], Int(w, s, 0)), hi, lo)
        elif op == "add":
            sat = ite_int(e.binop("Lt", a[1], Int(w, s, 0)), lo, hi)
        else:
            sat = ite_int(e.binop("Eq", e.binop("Lt", a[0], Int(w, s, 0)), e.binop("Lt", a[1], Int(w, s, 0))), hi, lo)
    else:
        sat = Int(w, s, 0) if op == "sub" else Int(w, s, (1 << w) - 1)
    return ite_int(ov, sat, val)


@model(r"::checked_(add|sub|mul)$")
def int_checked(e, c, a):
    op = c.rsplit("checked_", 1)[1]
    r = e.checked(op.capitalize(), a[0], a[1])
    if e.branch(r.f[1]):
        return none()
    return some(r.f[0])


@model(r"::checked_(div|rem)$")
def int_checked_div(e, c, a):
    if e.branch(e.binop("Eq", a[1], Int(a[1].w, a[1].s, 0))):
        return none()
    return some(e.binop("Div" if c.endswith("div") else "Rem", a[0], a[1]))


@model(r"::overflowing_(add|sub|mul)$")
def int_overflowing(e, c, a):
    return e.checked(c.rsplit("overflowing_", 1)[1].capitalize(), a[0], a[1])


@model(r"core::num::<impl [iu]\w+>::div_ceil$|^[iu]\w+::div_ceil$")
def int_div_ceil(e, c, a):
    x, y = a[0], a[1]
    if e.branch(e.binop("Eq", y, Int(y.w, y.s, 0))):
        raise Panic("div_by_zero", "div_ceil", "division by zero")
    q = e.binop("Div", x, y); r = e.binop("Rem", x, y)
    return ite_int(e.binop("Ne", r, Int(x.w, x.s, 0)), e.binop("Add", q, Int(x.w, x.s, 1)), q)


@model(r"core::num::<impl [iu]\w+>::(abs|unsigned_abs)$")
def int_abs(e, c, a):
    x = a[0]
    if c.endswith("unsigned_abs"):
        neg = e.binop("Lt", x, Int(x.w, 1, 0))
        ux = Int(x.w, 0, x.v) if x.conc() else Int(x.w, 0, x.v)
        nx = Int(x.w, 0, -x.sval()) if x.conc() else mk(x.w, 0, -x.v)
        return ite_int(neg, nx, ux)
    if e.branch(e.binop("Eq", x, Int(x.w, 1, -(1 << (x.w - 1))))):
        raise Panic("overflow", "abs", "attempt to negate with overflow")
    return ite_int(e.binop("Lt", x, Int(x.w, 1, 0)), Int(x.w, 1, -x.sval()) if x.conc() else mk(x.w, 1, -x.v), x)


@model(r"core::num::<impl [iu]\w+>::abs_diff$")
def int_abs_diff(e, c, a):
    x, y = a[0], a[1]
    lt = e.binop("Lt", x, y)
    d1, d2 = e.binop("Sub", y, x), e.binop("Sub", x, y)
    r = ite_int(lt, d1, d2)
    return Int(r.w, 0, r.v)


@model(r"core::num::<impl [iu]\w+>::pow$")
def int_pow(e, c, a):
    x, n = a[0], a[1]
    if not n.conc():
        raise Unsupported("pow with symbolic exponent")
    r = Int(x.w, x.s, 1)
    for _ in range(n.v):
        ck = e.checked("Mul", r, x)
        if e.branch(ck.f[1]):
            raise Panic("overflow", "pow", "attempt to multiply with overflow")
        r = ck.f[0]
    return r


@model(r"core::num::<impl [iu]\w+>::(leading_zeros|trailing_zeros|count_ones|is_power_of_two|next_power_of_two|ilog2|rotate_left|rotate_right|swap_bytes|to_be|to_le|from_be|from_le)$")
def int_bits(e, c, a):
    x = a[0]; m = c.rsplit("::", 1)[1]
    if m in ("rotate_left", "rotate_right"):
        n = a[1]
        if x.conc() and n.conc():
            k = n.v % x.w
            if m == "rotate_right":
                k = (x.w - k) % x.w
            return Int(x.w, x.s, ((x.v << k) | (x.v >> (x.w - k))) & ((1 << x.w) - 1))
        nz = n.z()
        nz = z3.ZeroExt(x.w - n.w, nz) if n.w < x.w else z3.Extract(x.w - 1, 0, nz)
        return mk(x.w, x.s, z3.RotateLeft(x.z(), nz) if m == "rotate_left" else z3.RotateRight(x.z(), nz))
    if not x.conc():
        if m in ("to_le", "from_le"):
            return x
        if m in ("swap_bytes", "to_be", "from_be"):
            bs = [z3.Extract(8 * i + 7, 8 * i, x.z()) for i in range(x.w // 8)]
            return mk(x.w, x.s, z3.Concat(*bs)) if len(bs) > 1 else x
        raise Unsupported(m + " on symbolic integer")
    v = x.v
    if m == "leading_zeros":
        return Int(32, 0, x.w - v.bit_length())
    if m == "trailing_zeros":
        return Int(32, 0, x.w if v == 0 else (v & -v).bit_length() - 1)
    if m == "count_ones":
        return Int(32, 0, bin(v).count("1"))
    if m == "is_power_of_two":
        return v != 0 and v & (v - 1) == 0
    if m == "next_power_of_two":
        return Int(x.w, x.s, 1 if v <= 1 else 1 << (v - 1).bit_length())
    if m == "ilog2":
        if v == 0:
            raise Panic("explicit_panic", "ilog2", "argument of integer logarithm must be positive")
        return Int(32, 0, v.bit_length() - 1)
    if m in ("to_le", "from_le"):
        return x
    return Int(x.w, x.s, int.from_bytes(v.to_bytes(x.w // 8, "little"), "big"))


@model(r"core::num::<impl [iu]\w+>::(to|from)_(le|be|ne)_bytes$|^[iu](8|16|32|64|128|size)::(to|from)_(le|be|ne)_bytes$")
def int_bytes(e, c, a):
    m = re.search(r"([iu]\w+?)>?::(to|from)_(le|be|ne)_bytes$", c)
    ty, dirn, end = m.group(1), m.group(2), m.group(3)
    w, s = INT_TY[ty]
    n = w // 8
    if dirn == "to":
        x = a[0]
        bs = [Int(8, 0, (x.v >> (8 * i)) & 0xFF) if x.conc() else mk(8, 0, z3.Extract(8 * i + 7, 8 * i, x.z())) for i in range(n)]
        if end == "be":
            bs.reverse()
        return Agg(bs, ty="array")
    arr = a[0]
    bs = list(arr.f)
    if end == "be":
        bs.reverse()
    if all(b.conc() for b in bs):
        return Int(w, s, sum(b.v << (8 * i) for i, b in enumerate(bs)))
    return mk(w, s, z3.Concat(*[b.z() for b in reversed(bs)])) if n > 1 else Int(w, s, bs[0].v)


@model(r"<(u8|u16|u32|u64|usize|i8|i16|i32|i64|isize|bool|char|f64|f32|\(\)) as Clone>::clone$|<&.* as Clone>::clone$")
def prim_clone(e, c, a):
    return copy_val(e.load(a[0]))


@model(r"<(u16|u32|u64|usize|i16|i32|i64|isize|u128|i128|f64) as From<(u8|u16|u32|i8|i16|i32|bool|char|f32)>>::from$|<(u8|u16|u32|i8|i16|i32|bool|char) as Into<\w+>>::into$")
def int_from(e, c, a):
    m = re.search(r"<(\w+) as From", c) or re.search(r"as Into<(\w+)>", c)
    ty = m.group(1)
    return e.cast("IntToInt", a[0], ty)


@model(r" as TryFrom<[iu]\w+>>::try_from$| as TryInto<[iu]\w+>>::try_into$")
def int_try_from(e, c, a):
    m = re.search(r"<([iu]\w+) as TryFrom", c) or re.search(r"as TryInto<([iu]\w+)>", c)
    ty = m.group(1); w, s = INT_TY[ty]
    x = a[0]
    lo, hi = (-(1 << (w - 1)), (1 << (w - 1)) - 1) if s else (0, (1 << w) - 1)
    if x.conc():
        return ok(Int(w, s, x.sval())) if lo <= x.sval() <= hi else err(Opaque("TryFromIntError"))
    wide = max(x.w, w) + 1
    zx = z3.SignExt(wide - x.w, x.z()) if x.s else z3.ZeroExt(wide - x.w, x.z())
    fits = z3.And(zx >= lo, zx <= hi)
    if e.branch(fits):
        return ok(e.cast("IntToInt", x, ty))
    return err(Opaque("TryFromIntError"))


@model(r"<impl char>::(is_ascii_\w+|is_alphabetic|is_whitespace|to_ascii_uppercase|to_ascii_lowercase|is_ascii|from_u32|from_digit|to_digit)$|"
       r"core::num::<impl u8>::(is_ascii_\w+|to_ascii_uppercase|to_ascii_lowercase|is_ascii)$|^char::(from_u32|from_digit)$|^u8::(is_ascii_\w+|to_ascii_\w+)$")
def ascii_ops(e, c, a):
    m = c.rsplit("::", 1)[1]
    x = deref_all(e, a[0])
    w = x.w

    def rng(lo, hi):
        return b_and(e.binop("Ge", x, Int(w, 0, lo)), e.binop("Le", x, Int(w, 0, hi)))
    if m == "from_u32":
        return some(x)
    up, lowc, dig = rng(65, 90), rng(97, 122), rng(48, 57)
    if m == "is_ascii_uppercase":
        return up
    if m == "is_ascii_lowercase":
        return lowc
    if m in ("is_ascii_alphabetic", "is_alphabetic"):
        if m == "is_alphabetic" and not x.conc():
            e.assume(z3.ULT(x.z(), 0x80)); e.notes["assume_ascii_char"] = True
        return b_or(up, lowc)
    if m == "is_ascii_digit":
        return dig
    if m == "is_ascii_alphanumeric":
        return b_or(b_or(up, lowc), dig)
    if m == "is_ascii":
        return e.binop("Lt", x, Int(w, 0, 128))
    if m in ("is_ascii_whitespace", "is_whitespace"):
        r = False
        for ch in (32, 9, 10, 12, 13) + ((11,) if m == "is_whitespace" else ()):
            r = b_or(r, e.binop("Eq", x, Int(w, 0, ch)))
        if m == "is_whitespace" and not x.conc():
            e.assume(z3.ULT(x.z(), 0x80)); e.notes["assume_ascii_char"] = True
        return r
    if m == "is_ascii_graphic":
        return rng(33, 126)
    if m == "is_ascii_punctuation":
        return b_or(b_or(rng(33, 47), rng(58, 64)), b_or(rng(91, 96), rng(123, 126)))
    if m == "is_ascii_control":
        return b_or(rng(0, 31), e.binop("Eq", x, Int(w, 0, 127)))
    if m == "to_ascii_uppercase":
        return ite_int(lowc, e.binop("Sub", x, Int(w, 0, 32)), x)
    if m == "to_ascii_lowercase":
        return ite_int(up, e.binop("Add", x, Int(w, 0, 32)), x)
    raise Unsupported("ascii op " + m)


@model(r"core::f64::<impl f64>::(ceil|floor|round|sqrt|abs|max|min|ln|log2|log10|powi|powf|exp|is_nan|trunc)$|^f64::(ceil|floor|round|sqrt|abs|max|min|ln|log2|powi|powf)$")
def f64_ops(e, c, a):
    import math
    m = c.rsplit("::", 1)[1]
    x = a[0]
    if not isinstance(x, float):
        raise Unsupported("float op on non-concrete value")
    if m == "ceil": return float(math.ceil(x))
    if m == "floor": return float(math.floor(x))
    if m == "round": return float(math.floor(abs(x) + 0.5)) * (1 if x >= 0 else -1)
    if m == "trunc": return float(int(x))
    if m == "sqrt": return math.sqrt(x)
    if m == "abs": return abs(x)
    if m == "max": return max(x, a[1])
    if m == "min": return min(x, a[1])
    if m == "ln": return math.log(x) if x > 0 else float("-inf")
    if m == "log2": return math.log2(x) if x > 0 else float("-inf")
    if m == "log10": return math.log10(x) if x > 0 else float("-inf")
    if m == "powi": return x ** a[1].sval()
    if m == "powf": return x ** a[1]
    if m == "exp": return math.exp(x)
    if m == "is_nan": return x != x
    raise Unsupported(m)


# ====================================================================== Option / Result
def _opt(e, v):
    return e.load(v) if isinstance(v, Ref) else v


@model(r"^Option::<.*>::unwrap$|^Option::<.*>::expect$|^Option::<.*>::unwrap_unchecked$")
def option_unwrap(e, c, a):
    if a[0].variant == 0:
        raise Panic("unwrap_none", "Option::unwrap", "called `Option::unwrap()` on a `None` value")
    return a[0].f[0]


@model(r"^Result::<.*>::unwrap$|^Result::<.*>::expect$")
def result_unwrap(e, c, a):
    if a[0].variant == 1:
        raise Panic("unwrap_err", "Result::unwrap", "called `Result::unwrap()` on an `Err` value")
    return a[0].f[0]


@model(r"^Result::<.*>::unwrap_err$|^Result::<.*>::expect_err$")
def result_unwrap_err(e, c, a):
    if a[0].variant == 0:
        raise Panic("unwrap_err", "Result::unwrap_err", "called `Result::unwrap_err()` on an `Ok` value")
    return a[0].f[0]


@model(r"^Option::<.*>::is_none$|^Option::<.*>::is_some$|^Result::<.*>::is_ok$|^Result::<.*>::is_err$")
def option_is(e, c, a):
    v = _opt(e, a[0]); m = c.rsplit("::", 1)[1]
    return {"is_none": v.variant == 0, "is_some": v.variant == 1, "is_ok": v.variant == 0, "is_err": v.variant == 1}[m]


@model(r"^Option::<.*>::unwrap_or$|^Result::<.*>::unwrap_or$")
def option_unwrap_or(e, c, a):
    good = 1 if c.startswith("Option") else 0
    return a[0].f[0] if a[0].variant == good else a[1]


@model(r"^Option::<.*>::unwrap_or_default$|^Result::<.*>::unwrap_or_default$")
def option_unwrap_or_default(e, c, a):
    good = 1 if c.startswith("Option") else 0
    if a[0].variant == good:
        return a[0].f[0]
    ty = re.match(r"^(?:Option|Result)::<(.*)>::unwrap_or_default$", c).group(1)
    return default_value(e, split_top(ty)[0])


def default_value(e, ty):
    ty = ty.strip()
    if ty in INT_TY:
        return Int(*INT_TY[ty], 0)
    if ty == "bool":
        return False
    if ty.startswith(("Vec<", "std::vec::Vec<")):
        return VecObj([])
    if ty in ("String", "std::string::String"):
        return VecObj([], "String")
    if ty == "f64":
        return 0.0
    if ty == "()":
        return UNIT
    if ty.startswith("Option<"):
        return none()
    am = re.match(r"^\[(.*); (\d+)\]$", ty)
    if am:
        return Agg([default_value(e, am.group(1)) for _ in range(int(am.group(2)))], ty="array")
    if ty.startswith("(") and ty.endswith(")"):
        return Agg([default_value(e, t) for t in split_top(ty[1:-1])], ty="tuple")
    base = ty.split("<")[0].split("::")[-1]
    if base in ("HashMap", "BTreeMap", "AHashMap", "HashSet", "BTreeSet", "AHashSet"):
        from .models_coll import MapObj
        return MapObj("BTree" in base, "Set" in base)
    if base == "VecDeque":
        return VecObj([])
    raise Unsupported("Default for " + ty)


@model(r"^Option::<.*>::unwrap_or_else::|^Result::<.*>::unwrap_or_else::")
def option_unwrap_or_else(e, c, a):
    if c.startswith("Option"):
        return a[0].f[0] if a[0].variant == 1 else e.call_closure(a[1], [])
    return a[0].f[0] if a[0].variant == 0 else e.call_closure(a[1], [a[0].f[0]])


@model(r"^Option::<.*>::map::|^Option::<.*>::and_then::|^Option::<.*>::filter::|^Option::<.*>::map_or::|^Option::<.*>::map_or_else::|^Option::<.*>::is_some_and::|^Option::<.*>::or_else::|^Option::<.*>::inspect::|^Option::<.*>::is_none_or::")
def option_combinators(e, c, a):
    m = re.search(r">::(\w+)::<", c).group(1)
    v = a[0]
    if m == "map":
        return some(e.call_closure(a[1], [v.f[0]])) if v.variant == 1 else none()
    if m == "and_then":
        return e.call_closure(a[1], [v.f[0]]) if v.variant == 1 else none()
    if m == "filter":
        if v.variant == 0:
            return none()
        keep = e.call_closure(a[1], [Ref(Cell(v.f[0]))])
        return v if e.branch(keep) else none()
    if m == "map_or":
        return e.call_closure(a[2], [v.f[0]]) if v.variant == 1 else a[1]
    if m == "map_or_else":
        return e.call_closure(a[2], [v.f[0]]) if v.variant == 1 else e.call_closure(a[1], [])
    if m == "is_some_and":
        return e.call_closure(a[1], [v.f[0]]) if v.variant == 1 else False
    if m == "is_none_or":
        return e.call_closure(a[1], [v.f[0]]) if v.variant == 1 else True
    if m == "or_else":
        return v if v.variant == 1 else e.call_closure(a[1], [])
    if m == "inspect":
        if v.variant == 1:
            e.call_closure(a[1], [Ref(Cell(v.f[0]))])
        return v
    raise Unsupported(m)


@model(r"^Option::<.*>::(ok_or|or|and|xor|take|replace|as_ref|as_mut|as_deref|as_deref_mut|cloned|copied|insert|get_or_insert|flatten|zip|unzip|ok_or_else|get_or_insert_with|as_slice|iter)(::<.*>)?$")
def option_misc(e, c, a):
    m = re.search(r">::(\w+)(::<.*>)?$", c).group(1)
    if m in ("take", "replace", "as_ref", "as_mut", "as_deref", "as_deref_mut", "insert", "get_or_insert", "get_or_insert_with"):
        r = a[0]; v = e.load(r)
        if m == "take":
            e.store(r, none()); return v
        if m == "replace":
            e.store(r, some(a[1])); return v
        if m in ("as_ref", "as_mut"):
            return some(Ref(r.cell, r.path + (("f", 0),))) if v.variant == 1 else none()
        if m in ("as_deref", "as_deref_mut"):
            if v.variant == 0:
                return none()
            inner = v.f[0]
            return some(e.as_slice(Ref(r.cell, r.path + (("f", 0),))) if isinstance(inner, VecObj) else (inner if isinstance(inner, (Ref, Slice)) else Ref(r.cell, r.path + (("f", 0),))))
        if m == "insert":
            e.store(r, some(a[1])); return Ref(r.cell, r.path + (("f", 0),))
        if v.variant == 0:
            e.store(r, some(a[1] if m == "get_or_insert" else e.call_closure(a[1], [])))
        return Ref(r.cell, r.path + (("f", 0),))
    v = a[0]
    if m == "ok_or":
        return ok(v.f[0]) if v.variant == 1 else err(a[1])
    if m == "ok_or_else":
        return ok(v.f[0]) if v.variant == 1 else err(e.call_closure(a[1], []))
    if m == "or":
        return v if v.variant == 1 else a[1]
    if m == "and":
        return a[1] if v.variant == 1 else none()
    if m in ("cloned", "copied"):
        return some(deep_clone(e.load(v.f[0]))) if v.variant == 1 else none()
    if m == "flatten":
        return v.f[0] if v.variant == 1 else none()
    if m == "zip":
        return some(Agg([v.f[0], a[1].f[0]], ty="tuple")) if v.variant == 1 and a[1].variant == 1 else none()
    raise Unsupported("Option::" + m)


@model(r"^Result::<.*>::(ok|err|map|map_err|and_then|or_else|is_ok_and|unwrap_or_else|as_ref|as_mut|inspect_err|iter)(::<.*>)?$")
def result_misc(e, c, a):
    m = re.search(r">::(\w+)(::<.*>)?$", c).group(1)
    v = a[0]
    if m in ("as_ref", "as_mut"):
        r = a[0]; v = e.load(r)
        return Agg([Ref(r.cell, r.path + (("f", 0),))], v.variant, "Result")
    if m == "ok":
        return some(v.f[0]) if v.variant == 0 else none()
    if m == "err":
        return some(v.f[0]) if v.variant == 1 else none()
    if m == "map":
        return ok(e.call_closure(a[1], [v.f[0]])) if v.variant == 0 else v
    if m == "map_err":
        return err(e.call_closure(a[1], [v.f[0]])) if v.variant == 1 else v
    if m == "and_then":
        return e.call_closure(a[1], [v.f[0]]) if v.variant == 0 else v
    if m == "or_else":
        return e.call_closure(a[1], [v.f[0]]) if v.variant == 1 else v
    if m == "is_ok_and":
        return e.call_closure(a[1], [v.f[0]]) if v.variant == 0 else False
    if m == "inspect_err":
        return v
    raise Unsupported("Result::" + m)


@model(r"<Result<.*> as Try>::branch$")
def result_try_branch(e, c, a):
    v = a[0]
    if v.variant == 0:
        return Agg([v.f[0]], 0, "ControlFlow")
    return Agg([Agg([v.f[0]], 1, "Result")], 1, "ControlFlow")


@model(r"<Option<.*> as Try>::branch$")
def option_try_branch(e, c, a):
    v = a[0]
    if v.variant == 1:
        return Agg([v.f[0]], 0, "ControlFlow")
    return Agg([none()], 1, "ControlFlow")


@model(r"<Result<.*> as FromResidual<Result<Infallible, .*>>>::from_residual$")
def result_from_residual(e, c, a):
    inner = a[0].f[0]
    m = re.search(r"<Result<(.*)> as FromResidual<Result<Infallible, (.*)>>>", c)
    to_t = split_top(m.group(1))[-1]; from_t = m.group(2)
    if "anyhow::Error" in to_t and "anyhow" not in from_t:
        inner = Opaque("anyhow", inner)
    return err(inner)


@model(r"<Option<.*> as FromResidual<Option<Infallible>>>::from_residual$")
def option_from_residual(e, c, a):
    return none()


@model(r"<Option<.*> as Clone>::clone$|<Result<.*> as Clone>::clone$")
def option_clone(e, c, a):
    return deep_clone(e.load(a[0]))


@model(r"<Option<.*> as Default>::default$")
def option_default(e, c, a):
    return none()


# ====================================================================== mem / ptr / misc
@model(r"^std::mem::swap::<|^core::mem::swap::<|^swap::<")
def mem_swap(e, c, a):
    x, y = e.load(a[0]), e.load(a[1]); e.store(a[0], y); e.store(a[1], x); return UNIT


@model(r"^std::mem::replace::<|^core::mem::replace::<|^replace::<")
def mem_replace(e, c, a):
    x = e.load(a[0]); e.store(a[0], a[1]); return x


@model(r"^std::mem::take::<|^core::mem::take::<|^take::<")
def mem_take(e, c, a):
    x = e.load(a[0])
    ty = re.search(r"take::<(.*)>$", c).group(1)
    e.store(a[0], default_value(e, ty)); return x


@model(r"^std::mem::drop::<|^core::mem::drop::<|^drop::<|^std::mem::forget::<")
def mem_drop(e, c, a):
    if "forget" not in c:
        e.drop_value(a[0])
    return UNIT


@model(r"^std::mem::size_of::<|^core::mem::size_of::<|^size_of::<")
def mem_size_of(e, c, a):
    ty = re.search(r"size_of::<(.*)>$", c).group(1)
    if ty in INT_TY:
        return usize(INT_TY[ty][0] // 8)
    raise Unsupported("size_of " + ty)


@model(r"<.* as Into<.*>>::into$|<.* as From<.*>>::from$")
def identity_conv(e, c, a):
    m = re.search(r"<(.*) as From<(.*)>>::from$", c)
    if m:
        to_t, from_t = m.group(1), m.group(2)
        if "anyhow::Error" in to_t:
            return Opaque("anyhow", a[0])
        if to_t in ("String", "std::string::String") or to_t.startswith("Vec<"):
            if isinstance(a[0], (Slice, Ref)):
                l, lo, hi = e.seq_of(a[0]); return VecObj(list(l[lo:hi]), "String" if "String" in to_t else "Vec")
        if to_t.startswith("Box<dyn") or to_t.startswith("Box<"):
            return a[0]
        if to_t.startswith("PathBuf") or to_t.startswith("std::path::PathBuf") or to_t.startswith("OsString"):
            l, lo, hi = e.seq_of(a[0]); return VecObj(list(l[lo:hi]), "String")
    return a[0]


@model(r"<.* as Borrow<.*>>::borrow$|<.* as BorrowMut<.*>>::borrow_mut$|<&.* as Deref>::deref$|<&mut .* as Deref(Mut)?>::deref(_mut)?$")
def borrow_identity(e, c, a):
    if c.startswith("<&"):
        return e.load(a[0])
    return a[0]


@model(r"^std::ptr::(read|write|null|null_mut|drop_in_place)|^core::ptr::(read|write|null|null_mut|drop_in_place)")
def ptr_ops(e, c, a):
    m = re.search(r"ptr::(\w+)", c).group(1)
    if m == "read":
        return copy_val(e.load(a[0]))
    if m == "write":
        e.store(a[0], a[1]); return UNIT
    if m == "drop_in_place":
        return UNIT
    return Opaque("nullptr")


@model(r"<\(\) as Default>::default$|<bool as Default>::default$|<(u8|u16|u32|u64|usize|i8|i16|i32|i64|isize) as Default>::default$|<\[.*; \d+\] as Default>::default$|<\(.*\) as Default>::default$")
def prim_default(e, c, a):
    ty = re.match(r"<(.*) as Default", c).group(1)
    return default_value(e, ty)


@model(r"^std::thread::sleep|^sleep$|^std::thread::yield_now|^yield_now$")
def thread_sleep(e, c, a):
    h = getattr(e, "sched", None)
    if h is not None:
        h.sleep_point()
    return UNIT


@model(r"^std::env::var::<|^var::<&str>$|^std::env::var_os")
def env_var(e, c, a):
    return err(Opaque("VarError")) if "var_os" not in c else none()


@model(r"^Instant::now$|^std::time::Instant::now$|^Instant::elapsed$|^std::time::Instant::elapsed$|^Duration::\w+$|^std::time::Duration::\w+$|^SystemTime::now$|^<Duration as (AddAssign|Add|Sub|SubAssign)>::\w+$")
def time_stub(e, c, a):
    if c.endswith(("as_secs_f64", "as_secs_f32")):
        return 0.0
    if c.endswith(("as_secs", "as_millis", "as_micros", "as_nanos", "subsec_nanos", "subsec_millis")):
        return Int(128 if c.endswith(("as_millis", "as_micros", "as_nanos")) else (32 if "subsec" in c else 64), 0, 0)
    return Opaque("time")


from . import models_iter, models_coll, models_io, sched, models_thread      # noqa: E402,F401  (register more models)
