"""Parallel depth-first exploration of all paths of a harness instance by re-execution from decision prefixes."""
import os, sys, time, traceback, importlib, hashlib
from concurrent.futures import ProcessPoolExecutor, wait, FIRST_COMPLETED

_STATE = {}


def _engine(crates, overflow_checks=True):
    key = tuple(crates) + (("noovf",) if not overflow_checks else ())
    if key not in _STATE:
        from lib import common
        from .mirparse import Program
        from .engine import Engine
        prog = Program({c: common.mir_dump(c, overflow_checks) for c in crates}, common.REPO)
        _STATE[key] = prog
    from .engine import Engine
    return Engine(_STATE[key])


def run_chunk(mod_name, inst_name, prefix, budget_paths, budget_s):
    """Worker: explore depth-first from `prefix` until the budget is used; return leftovers."""
    from .values import Panic, Unsupported, Infeasible, BudgetExceeded, PropertyViolation
    mod = importlib.import_module(mod_name)
    inst = mod.INSTANCES[inst_name]
    ovf = getattr(inst, "overflow_checks", True)
    key = ("eng", tuple(inst.crates), ovf)
    if key not in _STATE:
        _STATE[key] = _engine(inst.crates, ovf)
        if hasattr(inst, "setup"):
            inst.setup(_STATE[key])
    e = _STATE[key]
    if getattr(e, "_inst", None) is not inst_name:
        e.stubs = []
        e.call_cache = {}
        if hasattr(inst, "setup"):
            inst.setup(e)
        e._inst = inst_name
    t0 = time.time()
    work = [list(prefix)]
    out = {"paths": 0, "completed": 0, "infeasible": 0, "violations": [], "witnesses": {}, "samples": [], "inconclusive": [],
           "panics": 0}
    q0, s0, b0, st0 = e.stats["queries"], e.stats["solver_s"], e.stats["branches"], 0
    steps = 0
    while work and out["paths"] < budget_paths and time.time() - t0 < budget_s:
        pfx = work.pop()
        e.reset_path(pfx)
        e.solver.push()
        try:
            try:
                inst.path(e)
                out["completed"] += 1
                if len(out["samples"]) < 2 and e.inputs:
                    try:
                        out["samples"].append(e.concretize_inputs())
                    except Exception:
                        pass
            except Panic as ex:
                out["panics"] += 1
                role, desc = inst.classify_panic(e, ex) if hasattr(inst, "classify_panic") else (f"panic:{ex.kind}:{ex.where.split('::')[-1]}", str(ex))
                if role is not None:
                    try:
                        e._ensure_model()
                        out["violations"].append({"role": role, "desc": desc[:300], "inputs": e.concretize_inputs(), "trace": list(e.trace)})
                    except Infeasible:
                        out["infeasible"] += 1
            except PropertyViolation as ex:
                out["violations"].append({"role": ex.role, "desc": ex.desc[:300], "inputs": e.concretize_inputs(), "trace": list(e.trace)})
            except Infeasible:
                out["infeasible"] += 1
            except BudgetExceeded as ex:
                out["inconclusive"].append(str(ex))
            except Unsupported as ex:
                if os.environ.get("MIRSYM_TB"):
                    traceback.print_exc()
                out["inconclusive"].append("unsupported: " + str(ex)[:400])
            except RecursionError:
                out["inconclusive"].append("python recursion limit")
            except Exception as ex:
                if os.environ.get("MIRSYM_TB"):
                    traceback.print_exc()
                out["inconclusive"].append("engine error: " + "".join(traceback.format_exception(type(ex), ex, ex.__traceback__))[-1500:])
            for w in e.witnesses:
                out["witnesses"][w] = out["witnesses"].get(w, 0) + 1
            steps += e.steps
            out["paths"] += 1
            work.extend(e.work)
        finally:
            sc = getattr(e, "sched", None)
            if sc is not None:
                sc.shutdown(); e.sched = None
            e.solver.pop()
        if out["inconclusive"]:
            break
    out["leftover"] = work
    out["queries"] = e.stats["queries"] - q0
    out["solver_s"] = e.stats["solver_s"] - s0
    out["branches"] = e.stats["branches"] - b0
    out["steps"] = steps
    out["models_used"] = dict(e.models_used)
    out["funcs_used"] = dict(e.funcs_used)
    out["notes"] = dict(e.notes)
    return out


def explore(mod_name, inst_name, jobs=16, max_paths=2_000_000, max_wall=3600, pool=None, log=None):
    """Master: exhaust the path tree of one instance. Returns aggregate stats."""
    own = pool is None
    if own:
        pool = ProcessPoolExecutor(max_workers=jobs)
    agg = {"instance": inst_name, "paths": 0, "completed": 0, "infeasible": 0, "panics": 0, "violations": [], "witnesses": {}, "samples": [],
           "inconclusive": [], "queries": 0, "solver_s": 0.0, "branches": 0, "steps": 0, "models_used": {}, "funcs_used": {}, "notes": {},
           "exhaustive": False}
    t0 = time.time()
    pending = [[]]
    running = {}
    roles = {}
    try:
        while pending or running:
            while pending and len(running) < jobs:
                pfx = pending.pop()
                few = len(pending) + len(running) < 2 * jobs
                fut = pool.submit(run_chunk, mod_name, inst_name, pfx, 4 if few else 400, 0.5 if few else 8.0)
                running[fut] = pfx
            done, _ = wait(list(running), return_when=FIRST_COMPLETED, timeout=5)
            for fut in done:
                running.pop(fut)
                r = fut.result()
                for k in ("paths", "completed", "infeasible", "panics", "queries", "solver_s", "branches", "steps"):
                    agg[k] += r[k]
                for w, n in r["witnesses"].items():
                    agg["witnesses"][w] = agg["witnesses"].get(w, 0) + n
                for k, v in r["models_used"].items():
                    agg["models_used"][k] = max(agg["models_used"].get(k, 0), v)
                agg["funcs_used"].update(r["funcs_used"]); agg["notes"].update(r["notes"])
                if len(agg["samples"]) < 3:
                    agg["samples"].extend(r["samples"][:1])
                for v in r["violations"]:
                    n = roles.get(v["role"], 0)
                    roles[v["role"]] = n + 1
                    if n < 2:
                        agg["violations"].append(v)
                agg["inconclusive"].extend(r["inconclusive"])
                pending.extend(r["leftover"])
            if agg["inconclusive"]:
                break
            if sum(roles.values()) >= 40:
                # plenty of counterexamples already: the verdict cannot become a pass; stop exploring (reported as not exhaustive)
                agg["notes"]["stopped_early"] = "exploration stopped after 40 counterexamples"
                for fut in list(running):
                    fut.cancel()
                pending = []
                break
            if agg["paths"] > max_paths or time.time() - t0 > max_wall:
                agg["inconclusive"].append(f"exploration budget exceeded ({agg['paths']} paths, {time.time()-t0:.0f}s, {len(pending)} prefixes left)")
                break
        else:
            agg["exhaustive"] = True
        if not pending and not running and not agg["inconclusive"]:
            agg["exhaustive"] = True
    finally:
        for fut in running:
            fut.cancel()
        if own:
            pool.shutdown(wait=False, cancel_futures=True)
    agg["violation_counts"] = roles
    agg["wall_s"] = round(time.time() - t0, 2)
    return agg


def run_concrete(mod_name, inst_name, case):
    """Execute one instance path concretely (differential validation of the engine + models)."""
    from .values import Panic
    mod = importlib.import_module(mod_name)
    inst = mod.INSTANCES[inst_name]
    ovf = getattr(inst, "overflow_checks", True)
    key = ("eng", tuple(inst.crates), ovf)
    if key not in _STATE:
        _STATE[key] = _engine(inst.crates, ovf)
    e = _STATE[key]
    e.stubs = []; e.call_cache = {}
    if hasattr(inst, "setup"):
        inst.setup(e)
    e._inst = None
    e.reset_path([])
    e.concrete = case
    e.solver.push()
    try:
        try:
            return {"out": inst.path(e)}
        except Panic as ex:
            return {"panic": ex.kind, "where": ex.where}
    finally:
        sc = getattr(e, "sched", None)
        if sc is not None:
            sc.shutdown(); e.sched = None
        e.concrete = None
        e.solver.pop()
