"""I/O, sync and misc models (files, cursors, mutexes...). Filled in as properties need them."""
import re
import z3
from .values import *
from .values import b_not, b_and, b_or, copy_val, deep_clone
from .mirparse import split_top
from .models import model, load, deref_all, usize, values_eq, values_cmp


# ---------------------------------------------------------------------- ranges
@model(r"RangeInclusive::<.*>::new$")
def rangeincl_new(e, c, a):
    return Agg([a[0], a[1], False], ty="RangeInclusive")


@model(r"RangeInclusive::<.*>::(start|end)$")
def rangeincl_bounds(e, c, a):
    r = a[0]
    return Ref(r.cell, r.path + (("f", 0 if c.endswith("start") else 1),))


@model(r"Range(Inclusive|From|To)?::<.*>::contains::<|<Range(Inclusive)?<.*> as RangeBounds<.*>>::contains")
def range_contains(e, c, a):
    r = deref_all(e, a[0]); v = deref_all(e, a[1])
    if r.ty == "RangeInclusive":
        return b_and(e.binop("Ge", v, r.f[0]), e.binop("Le", v, r.f[1]))
    if r.ty == "Range":
        return b_and(e.binop("Ge", v, r.f[0]), e.binop("Lt", v, r.f[1]))
    if r.ty == "RangeFrom":
        return e.binop("Ge", v, r.f[0])
    if r.ty == "RangeTo":
        return e.binop("Lt", v, r.f[0])
    raise Unsupported("contains on " + r.ty)


@model(r"Range::<.*>::(is_empty|len)$|<Range<.*> as ExactSizeIterator>::len$")
def range_len(e, c, a):
    r = deref_all(e, a[0])
    if c.endswith("is_empty"):
        return e.binop("Ge", r.f[0], r.f[1])
    lt = e.binop("Lt", r.f[0], r.f[1])
    from .models import ite_int
    return ite_int(lt, e.binop("Sub", r.f[1], r.f[0]), Int(r.f[0].w, r.f[0].s, 0))


# ====================================================================== errors (opaque tokens)
def io_err(kind):
    return Opaque("ioerr", kind)


@model(r"anyhow::__private::format_err|^anyhow::Error::msg|anyhow::__private::must_use|^format_err$|anyhow::Error::new|<anyhow::Error as From<.*>>::from$|anyhow::error::<impl anyhow::Error>::")
def anyhow_new(e, c, a):
    if c.endswith("must_use"):
        return a[0]
    return Opaque("anyhow", a[0] if a else None)


@model(r" as (anyhow::)?Context<.*>>::(context|with_context)(::<.*>)?$")
def anyhow_context(e, c, a):
    v = a[0]
    if c.startswith("<Option") or v.ty == "Option":
        return ok(v.f[0]) if v.variant == 1 else err(Opaque("anyhow", "context:none"))
    return v if v.variant == 0 else err(Opaque("anyhow", v.f[0]))


@model(r"^std::io::Error::(new|other|from_raw_os_error|last_os_error)|^io::Error::(new|other)|<std::io::Error as From<.*>>::from$|^std::io::Error::kind$|^ErrorKind::")
def io_error_new(e, c, a):
    if c.endswith("kind"):
        return Opaque("errorkind", deref_all(e, a[0]).data)
    return io_err(a[0] if a else "other")


@model(r"<(anyhow::Error|std::io::Error|Opaque) as (Display|Debug)>::fmt$|^anyhow::Error::(to_string|chain|root_cause|downcast_ref)")
def err_fmt(e, c, a):
    return ok(UNIT)


# ====================================================================== in-memory file system
class FileData:
    def __init__(self, data=None):
        self.data = list(data or [])


class FS:
    """Symbolic file system: path (bytes) -> FileData. `fault_at`: number of bytes that can still be written to any
    file before the underlying write fails (None = never)."""
    def __init__(self):
        self.files = {}
        self.fault_at = None
        self.written = 0
        self.faulted = False
        self.log = []


class FileDesc:
    def __init__(self, fdata, fs, writable):
        self.fdata, self.fs, self.pos, self.writable = fdata, fs, 0, writable


class FileObj:
    def __init__(self, desc):
        self.desc = desc
        self.variant = None

    def raw_write(self, e, items):
        """write(2): returns number of bytes accepted or None on error (ENOSPC/EFBIG model)."""
        d, fs = self.desc, self.desc.fs
        n = len(items)
        only = getattr(fs, "fault_path", None)          # optional: the fault budget applies to writes to this path only
        if fs.fault_at is not None and (only is None or fs.files.get(only) is d.fdata):
            room = fs.fault_at - fs.written
            if room <= 0:
                fs.faulted = True
                return None
            n = min(n, room)
        pos = d.pos
        if not isinstance(pos, int):
            pos = e.concretize(pos, len(d.fdata.data))
        data = d.fdata.data
        if pos > len(data):
            data.extend(Int(8, 0, 0) for _ in range(pos - len(data)))
        data[pos:pos + n] = items[:n]
        d.pos = pos + n
        if only is None or fs.files.get(only) is d.fdata:
            fs.written += n
        return n

    def write_all(self, e, items):
        items = list(items)
        while items:
            n = self.raw_write(e, items)
            if n is None:
                return False
            items = items[n:]
        return True

    def read(self, e, n):
        d = self.desc
        pos = d.pos
        if not isinstance(pos, int):
            pos = e.concretize(pos, len(d.fdata.data))
        out = d.fdata.data[pos:pos + n]
        d.pos = pos + len(out)
        return out

    def seek(self, e, whence, off):
        d = self.desc
        size = len(d.fdata.data)
        if whence == 0:      # Start(u64)
            d.pos = off.v if off.conc() else off
            return ok(Int(64, 0, off.v)) if off.conc() else ok(off)
        base = size if whence == 1 else d.pos
        if not isinstance(base, int):
            base = e.concretize(base, size)
        o = off.sval() if off.conc() else None
        if o is None:
            raise Unsupported("seek with symbolic relative offset")
        if base + o < 0:
            return err(io_err("EINVAL"))
        d.pos = base + o
        return ok(Int(64, 0, d.pos))


class BufWriterObj:
    def __init__(self, inner, cap):
        self.inner, self.cap, self.buf, self.panicked = inner, cap, [], False
        self.variant = None

    def _inner_write_all(self, e, items):
        w = self.inner
        while isinstance(w, Ref):               # BufWriter<Box<dyn Write>> / BufWriter<&mut W>
            w = e.load(w)
        if isinstance(w, VecObj):
            w.e.extend(items); return True
        if hasattr(w, "write_all"):
            return w.write_all(e, items)
        if hasattr(w, "write_model"):
            return w.write_model(e, items)
        raise Unsupported(f"BufWriter over {w!r}")

    def write_all(self, e, items):
        if len(self.buf) + len(items) > self.cap:
            if not self.flush(e):
                return False
        if len(items) >= self.cap:
            return self._inner_write_all(e, items)
        self.buf.extend(items)
        return True

    def flush(self, e):
        okk = self._inner_write_all(e, self.buf)
        self.buf = []
        return okk

    def on_drop(self, e):
        self.flush(e)       # BufWriter::drop flushes and ignores errors


class CursorObj:
    def __init__(self, inner):
        self.inner, self.pos = inner, 0
        self.variant = None

    def read(self, e, n):
        l, lo, hi = e.seq_of(self.inner)
        pos = self.pos if isinstance(self.pos, int) else e.concretize(self.pos, hi - lo)
        out = l[lo + pos:min(lo + pos + n, hi)]
        self.pos = pos + len(out)
        return out


def _fs(e):
    if getattr(e, "fs", None) is None:
        e.fs = FS()
    return e.fs


def _path_bytes(e, v):
    v = deref_all(e, v) if isinstance(v, Ref) and not isinstance(e.load(v), (VecObj, Agg)) else v
    return e.bytes_of(v)


@model(r"^File::open::<|^std::fs::File::open::<|^File::create::<|^std::fs::File::create::<")
def file_open(e, c, a):
    fs = _fs(e); p = _path_bytes(e, a[0])
    if "create" in c:
        if getattr(fs, "create_fails", False):
            return err(io_err("EACCES"))
        fd = FileData(); fs.files[p] = fd      # truncate-on-create
        fs.log.append(("create", p))
        return ok(FileObj(FileDesc(fd, fs, True)))
    if p not in fs.files:
        return err(io_err("ENOENT"))
    return ok(FileObj(FileDesc(fs.files[p], fs, False)))


@model(r"^(std::path::)?Path::(file_stem|extension|file_name)$|^PathBuf::(file_stem|extension|file_name)$")
def path_components(e, c, a):
    """std::path semantics on byte strings: file name = text after the last '/', stem/extension split at the LAST '.', a leading '.' is
    part of the stem, '..' has neither."""
    m = c.rsplit("::", 1)[1]
    sl = e.as_slice(a[0]); l, lo, hi = e.seq_of(sl)
    start = lo
    for k in range(hi - 1, lo - 1, -1):
        if e.branch(e.binop("Eq", l[k], Int(8, 0, ord("/")))):
            start = k + 1; break
    if start >= hi:
        return none()
    if m == "file_name":
        return some(Slice(sl.cell, sl.path, start, hi))
    if hi - start == 2 and e.branch(b_and(e.binop("Eq", l[start], Int(8, 0, 46)), e.binop("Eq", l[start + 1], Int(8, 0, 46)))):
        return none() if m == "extension" else some(Slice(sl.cell, sl.path, start, hi))
    dot = None
    for k in range(hi - 1, start, -1):          # a dot at `start` does not count
        if e.branch(e.binop("Eq", l[k], Int(8, 0, 46))):
            dot = k; break
    if m == "file_stem":
        return some(Slice(sl.cell, sl.path, start, hi if dot is None else dot))
    return none() if dot is None else some(Slice(sl.cell, sl.path, dot + 1, hi))


@model(r"^(flate2::read::)?MultiGzDecoder::<.*>::new$|^(flate2::read::)?GzDecoder::<.*>::new$")
def gz_decoder_identity(e, c, a):
    e.notes["gzip"] = "the gzip container is modelled as the identity (the file model holds the decompressed text)"
    return a[0]


class OpenOptionsObj:
    def __init__(self):
        self.o = {"read": False, "write": False, "append": False, "truncate": False, "create": False, "create_new": False}
        self.variant = None


@model(r"^(std::fs::)?OpenOptions::new$|^(std::fs::)?File::options$")
def openoptions_new(e, c, a):
    return OpenOptionsObj()


@model(r"^(std::fs::)?OpenOptions::(read|write|append|truncate|create|create_new)$")
def openoptions_set(e, c, a):
    oo = deref_all(e, a[0])
    v = a[1]
    if not isinstance(v, bool):
        raise Unsupported("symbolic OpenOptions flag")
    oo.o[c.rsplit("::", 1)[1]] = v
    return a[0]


@model(r"^(std::fs::)?OpenOptions::open::<")
def openoptions_open(e, c, a):
    """open(2) semantics of std::fs::OpenOptions on the file-system model: create / create_new / truncate / append."""
    oo = deref_all(e, a[0]).o
    fs = _fs(e); p = _path_bytes(e, a[1])
    writable = oo["write"] or oo["append"]
    if (oo["create"] or oo["create_new"] or oo["truncate"]) and not writable:
        return err(io_err("EINVAL"))
    exists = p in fs.files
    if oo["create_new"] and exists:
        return err(io_err("EEXIST"))
    if not exists:
        if not (oo["create"] or oo["create_new"]):
            return err(io_err("ENOENT"))
        if getattr(fs, "create_fails", False):
            return err(io_err("EACCES"))
        fs.files[p] = FileData(); fs.log.append(("create", p))
    fd = fs.files[p]
    if oo["truncate"]:
        del fd.data[:]
    desc = FileDesc(fd, fs, writable)
    if oo["append"]:
        desc.pos = len(fd.data)
    return ok(FileObj(desc))


@model(r"^File::try_clone$|^std::fs::File::try_clone$")
def file_try_clone(e, c, a):
    return ok(FileObj(deref_all(e, a[0]).desc))


@model(r"^File::metadata$|^std::fs::File::metadata$|^std::fs::metadata::<")
def file_metadata(e, c, a):
    if "fs::metadata" in c:
        fs = _fs(e); p = _path_bytes(e, a[0])
        if p not in fs.files:
            return err(io_err("ENOENT"))
        return ok(Opaque("metadata", len(fs.files[p].data)))
    return ok(Opaque("metadata", len(deref_all(e, a[0]).desc.fdata.data)))


@model(r"^Metadata::len$|^std::fs::Metadata::len$")
def metadata_len(e, c, a):
    return Int(64, 0, deref_all(e, a[0]).data)


@model(r"^File::sync_all$|^File::sync_data$|^File::set_len$")
def file_sync(e, c, a):
    return ok(UNIT)


@model(r"^BufReader::<.*>::(new|with_capacity)$|^std::io::BufReader::<.*>::(new|with_capacity)$")
def bufreader_new(e, c, a):
    return a[-1]        # reads go straight to the inner reader (no observable difference: every read is preceded by a seek)


@model(r"^BufWriter::<.*>::(new|with_capacity)$|^std::io::BufWriter::<.*>::(new|with_capacity)$")
def bufwriter_new(e, c, a):
    cap = a[0].v if "with_capacity" in c else 8192
    ov = getattr(e, "bufwriter_cap", None)        # harness may shrink the buffer so that drains happen inside add_part
    return BufWriterObj(a[-1], ov if ov is not None else cap)


@model(r"^BufWriter::<.*>::(get_mut|get_ref|into_inner)$|^BufReader::<.*>::(get_mut|get_ref|into_inner)$")
def bufwriter_inner(e, c, a):
    w = _source(e, a[0])
    if c.endswith("into_inner"):
        if isinstance(w, BufWriterObj):
            return ok(w.inner) if w.flush(e) else err(io_err("ENOSPC"))
        return w
    return Ref(Cell(w.inner if isinstance(w, BufWriterObj) else w))


@model(r"^Cursor::<.*>::new$|^std::io::Cursor::<.*>::new$")
def cursor_new(e, c, a):
    return CursorObj(a[0])


@model(r"^Cursor::<.*>::(position|set_position|into_inner|get_ref)$")
def cursor_ops(e, c, a):
    cur = deref_all(e, a[0]); m = c.rsplit("::", 1)[1]
    if m == "position":
        return Int(64, 0, cur.pos) if isinstance(cur.pos, int) else cur.pos
    if m == "set_position":
        cur.pos = a[1].v if a[1].conc() else a[1]; return UNIT
    return cur.inner


def _sink(e, w):
    """Resolve a writer argument (&mut W) to the object that receives bytes."""
    v = w
    for _ in range(6):
        if isinstance(v, Ref):
            t = e.load(v)
            if isinstance(t, VecObj):
                return t
            v = t; continue
        break
    return v


@model(r" as (std::io::)?Write>::(write_all|write|flush)$|^std::io::Write::(write_all|write|flush)$")
def io_write(e, c, a):
    w = _sink(e, a[0]); m = c.rsplit("::", 1)[1]
    if m == "flush":
        if isinstance(w, VecObj) or isinstance(w, (FileObj,)):
            return ok(UNIT)
        if isinstance(w, BufWriterObj):
            return ok(UNIT) if w.flush(e) else err(io_err("ENOSPC"))
        if hasattr(w, "flush_model"):
            return w.flush_model(e)
        raise Unsupported(f"flush on {w!r}")
    l, lo, hi = e.seq_of(a[1]); items = l[lo:hi]
    if m == "write" and isinstance(w, FileObj):
        n = w.raw_write(e, list(items))          # a single write(2): may be short
        return err(io_err("ENOSPC")) if n is None else ok(usize(n))
    if isinstance(w, VecObj):
        w.e.extend(items); good = True
    elif isinstance(w, (FileObj, BufWriterObj)):
        good = w.write_all(e, items)
    elif hasattr(w, "write_model"):
        good = w.write_model(e, items)
    else:
        raise Unsupported(f"write on {w!r}")
    if not good:
        return err(io_err("ENOSPC"))
    return ok(UNIT) if m == "write_all" else ok(usize(len(items)))


@model(r"^(std::io::)?copy::<")
def io_copy(e, c, a):
    """std::io::copy(reader, writer): everything the reader still holds is written with write_all; Ok(bytes copied) or the write error"""
    src = _source(e, a[0]); w = _sink(e, a[1])
    data = src.read(e, 1 << 40)
    if isinstance(w, VecObj):
        w.e.extend(data); good = True
    elif isinstance(w, (FileObj, BufWriterObj)):
        good = w.write_all(e, data)
    elif hasattr(w, "write_model"):
        good = w.write_model(e, data)
    else:
        raise Unsupported(f"io::copy into {w!r}")
    return ok(usize(len(data))) if good else err(io_err("ENOSPC"))


def _source(e, r):
    v = r
    for _ in range(6):
        if isinstance(v, Ref):
            v = e.load(v); continue
        break
    return v


@model(r" as (std::io::)?Read>::(read_exact|read|read_to_end|read_to_string)$")
def io_read(e, c, a):
    src = _source(e, a[0]); m = c.rsplit("::", 1)[1]
    if isinstance(src, Slice):           # impl Read for &[u8]
        ref = a[0]
        while isinstance(e.load(ref), Ref):
            ref = e.load(ref)

        class _S:
            def read(self, e2, n):
                sl = e2.load(ref); n2 = min(n, sl.hi - sl.lo)
                l, lo, hi = e2.seq_of(sl)
                e2.store(ref, Slice(sl.cell, sl.path, sl.lo + n2, sl.hi))
                return l[lo:lo + n2]
        src = _S()
    if not hasattr(src, "read"):
        raise Unsupported(f"read on {src!r}")
    if m in ("read_to_end", "read_to_string"):
        out = src.read(e, 1 << 40)
        e.load(a[1]).e.extend(out)
        return ok(usize(len(out)))
    l, lo, hi = e.seq_of(a[1])
    want = hi - lo
    if m == "read_exact":
        got = src.read(e, want)
        if len(got) < want:
            return err(io_err("UnexpectedEof"))
        l[lo:hi] = got
        return ok(UNIT)
    got = src.read(e, want)
    l[lo:lo + len(got)] = got
    return ok(usize(len(got)))


@model(r" as (std::io::)?Seek>::(seek|stream_position|rewind)$")
def io_seek(e, c, a):
    f = _source(e, a[0]); m = c.rsplit("::", 1)[1]
    if isinstance(f, BufWriterObj):
        if not f.flush(e):
            return err(io_err("ENOSPC"))
        f = f.inner
    if m == "stream_position":
        p = f.desc.pos
        return ok(Int(64, 0, p) if isinstance(p, int) else p)
    if m == "rewind":
        f.desc.pos = 0; return ok(UNIT)
    sf = a[1]
    if isinstance(f, CursorObj):
        if sf.variant == 0:
            f.pos = sf.f[0].v if sf.f[0].conc() else sf.f[0]
            return ok(sf.f[0])
        raise Unsupported("cursor relative seek")
    return f.seek(e, sf.variant, sf.f[0])


@model(r"^(std::io::)?BufReader::<.*>::seek_relative$")
def bufreader_seek_relative(e, c, a):
    """BufReader::seek_relative(offset: i64) = seek(SeekFrom::Current(offset)) without discarding the buffer (no observable difference here)"""
    f = _source(e, a[0])
    r = f.seek(e, 2, a[1])
    return ok(UNIT) if r.variant == 0 else r


@model(r" as AsRef<(std::path::)?Path>>::as_ref$| as AsRef<OsStr>>::as_ref$|^Path::new::<|^std::path::Path::new::<|^Path::(to_path_buf|as_os_str|to_str|to_string_lossy|display)$|^PathBuf::(as_path|from)|<PathBuf as Deref>::deref$|^OsStr::to_str$")
def path_identity(e, c, a):
    if c.endswith("to_str"):
        return some(e.as_slice(a[0]))
    if c.endswith("to_path_buf"):
        l, lo, hi = e.seq_of(a[0]); return VecObj(l[lo:hi], "String")
    if c.endswith("to_string_lossy"):
        return Agg([e.as_slice(a[0])], 0, "Cow")
    v = a[0]
    if isinstance(v, Ref):
        t = e.load(v)
        if isinstance(t, (Slice,)):
            return t
        if isinstance(t, VecObj):
            return e.as_slice(v)
    return v


@model(r"^(std::fs::)?(remove_file|create_dir_all|rename|copy)::<")
def fs_ops(e, c, a):
    fs = _fs(e)
    if "remove_file" in c:
        p = _path_bytes(e, a[0])
        if p in fs.files:
            del fs.files[p]; return ok(UNIT)
        return err(io_err("ENOENT"))
    if "rename" in c:
        p, q = _path_bytes(e, a[0]), _path_bytes(e, a[1])
        if p not in fs.files:
            return err(io_err("ENOENT"))
        fs.files[q] = fs.files.pop(p); return ok(UNIT)
    return ok(UNIT)


@model(r" as (std::io::)?BufRead>::(read_until|read_line|fill_buf|consume|lines)$")
def bufread_ops(e, c, a):
    src = _source(e, a[0]); m = c.rsplit("::", 1)[1]
    if m == "read_until":
        delim, buf = a[1], e.load(a[2])
        n = 0
        while True:
            got = src.read(e, 1)
            if not got:
                return ok(usize(n))
            buf.e.append(got[0]); n += 1
            if e.branch(e.binop("Eq", got[0], delim)):
                return ok(usize(n))
    if m == "read_line":
        buf = e.load(a[1]); n = 0
        while True:
            got = src.read(e, 1)
            if not got:
                return ok(usize(n))
            buf.e.append(got[0]); n += 1
            if e.branch(e.binop("Eq", got[0], Int(8, 0, 10))):
                return ok(usize(n))
    raise Unsupported(c)


# ====================================================================== ZSTD: abstract lossless codec stub
ZMAGIC = 0x28


@model(r"^zstd::encode_all::<|^zstd::stream::encode_all::<|^encode_all::<&\[u8\]>$|^zstd::bulk::compress$")
def zstd_encode_all(e, c, a):
    """compress(x) = [magic] ++ x : lossless and never panics; real sizes are outside the model."""
    l, lo, hi = e.seq_of(a[0])
    return ok(VecObj([Int(8, 0, ZMAGIC)] + list(l[lo:hi])))


@model(r"^zstd::decode_all::<|^zstd::stream::decode_all::<|^decode_all::<&\[u8\]>$")
def zstd_decode_all(e, c, a):
    l, lo, hi = e.seq_of(a[0])
    if hi - lo == 2 and e.branch(e.binop("Eq", l[lo], Int(8, 0, ZMAGIC + 2))):
        tab = e.h.get("zstd_table", [])
        i = e.concretize(l[lo + 1], len(tab))
        if i >= len(tab):
            return err(io_err("zstd: unknown token"))
        return ok(VecObj(list(tab[i])))
    if hi - lo == 4 and e.branch(e.binop("Eq", l[lo], Int(8, 0, ZMAGIC + 3))):
        key = bytes(e.concretize(x, 255) for x in l[lo + 1:lo + 4])
        body = e.h.get("zstd_hash_table", {}).get(key)
        if body is None:
            return err(io_err("zstd: unknown token"))
        return ok(VecObj([Int(8, 0, b) for b in body]))
    if hi - lo >= 3 and e.branch(e.binop("Eq", l[lo], Int(8, 0, ZMAGIC + 1))):
        n = e.concretize(l[lo + 1], 255) + 256 * e.concretize(l[lo + 2], 255)
        if lo + 3 + n > hi:
            return err(io_err("zstd: truncated frame"))
        return ok(VecObj(list(l[lo + 3:lo + 3 + n])))
    if hi - lo < 1 or not e.branch(e.binop("Eq", l[lo], Int(8, 0, ZMAGIC))):
        return err(io_err("zstd: not a frame"))
    return ok(VecObj(list(l[lo + 1:hi])))


# ====================================================================== misc process / path / stdout models (CLI harness)
@model(r"^std::env::temp_dir$|^temp_dir$")
def env_temp_dir(e, c, a):
    return e.new_bytes(b"/tmp", "String")


@model(r"^std::process::id$|^id$")
def process_id(e, c, a):
    return Int(32, 0, 4242)


@model(r"^Path::join::<|^PathBuf::join::<|^std::path::Path::join::<")
def path_join(e, c, a):
    l, lo, hi = e.seq_of(a[0]); m, mlo, mhi = e.seq_of(a[1])
    return VecObj(list(l[lo:hi]) + [Int(8, 0, ord("/"))] + list(m[mlo:mhi]), "String")


@model(r"^(std::fs::)?read::<&?(PathBuf|Path|&Path|&str|String|&PathBuf|P)>$|^(std::fs::)?read_to_string::<")
def fs_read(e, c, a):
    fs = _fs(e); p = _path_bytes(e, a[0])
    if p not in fs.files:
        return err(io_err("ENOENT"))
    return ok(VecObj(list(fs.files[p].data), "String" if "to_string" in c else "Vec"))


class StdoutObj:
    variant = None

    def write_model(self, e, items):
        if getattr(e, "stdout", None) is None:
            e.stdout = []
        e.stdout.extend(items)
        return True

    def flush_model(self, e):
        return ok(UNIT)


@model(r"^std::io::stdout$|^stdout$|^io::stdout$|^Stdout::lock$")
def io_stdout(e, c, a):
    return StdoutObj()


@model(r" as (std::io::)?Write>::write_fmt$")
def io_write_fmt(e, c, a):
    from .models import render_format
    w = _sink(e, a[0])
    r = render_format(e, a[1])
    if r is None:
        raise Unsupported("write_fmt with a format that cannot be rendered")
    if isinstance(w, VecObj):
        w.e.extend(r); return ok(UNIT)
    if isinstance(w, (FileObj, BufWriterObj)):
        return ok(UNIT) if w.write_all(e, r) else err(io_err("ENOSPC"))
    if hasattr(w, "write_model"):
        w.write_model(e, r); return ok(UNIT)
    raise Unsupported(f"write_fmt on {w!r}")


@model(r"^PathBuf::to_str$|^Path::to_str$|^PathBuf::as_path$|<PathBuf as AsRef<Path>>::as_ref$|<PathBuf as Deref>::deref$|^PathBuf::from::<|<PathBuf as From<.*>>::from$")
def pathbuf_ops(e, c, a):
    if c.endswith("to_str"):
        return some(e.as_slice(a[0]))
    if "from" in c.rsplit("::", 2)[-2:][0] or c.endswith("::from"):
        l, lo, hi = e.seq_of(a[0]); return VecObj(list(l[lo:hi]), "String")
    return e.as_slice(a[0])


@model(r"^(rayon::)?ThreadPoolBuilder(::<.*>)?::(new|num_threads|build_global|build|stack_size|thread_name)|^rayon_core::ThreadPoolBuilder")
def rayon_builder(e, c, a):
    if re.search(r"::build(_global)?$", c):
        return ok(UNIT)
    return Opaque("rayon_builder")


@model(r"^num_cpus::get$|^num_cpus::get_physical$|^std::thread::available_parallelism$")
def num_cpus_get(e, c, a):
    return usize(4)


# ====================================================================== thread-locals / RefCell / zstd-safe contexts
@model(r"^LocalKey::<.*>::new$|^std::thread::LocalKey::<.*>::new$|^std::thread::local_impl::|thread_local_inner")
def localkey_new(e, c, a):
    return Opaque("thread_local_key")


@model(r"^LocalKey::<.*>::with::<|^std::thread::LocalKey::<.*>::with::<")
def localkey_with(e, c, a):
    return e.call_closure(a[1], [Ref(Cell(Opaque("thread_local")))])


@model(r"^RefCell::<.*>::(borrow_mut|borrow|new|into_inner)$|<Ref(Mut)?<'_, .*> as Deref(Mut)?>::deref(_mut)?$")
def refcell_ops(e, c, a):
    m = c.rsplit("::", 1)[1]
    if m == "new":
        return Ref(Cell(a[0]))
    if m == "into_inner":
        return e.load(a[0]) if isinstance(a[0], Ref) else a[0]
    return a[0] if isinstance(a[0], Ref) else Ref(Cell(a[0]))


@model(r"^(zstd_safe::)?compress_bound$")
def zstd_compress_bound(e, c, a):
    n = a[0]
    if not n.conc():
        raise Unsupported("compress_bound of a symbolic length")
    return usize(n.v + (n.v >> 8) + (((128 << 10) - n.v) >> 11 if n.v < (128 << 10) else 0))


@model(r"^CCtx::<'_>::compress::<|^zstd_safe::CCtx::<'_>::compress::<|^(zstd_safe::)?compress::<")
def zstd_cctx_compress(e, c, a):
    """ZSTD_compressCCtx stub: lossless, and the output size is a free choice between a small frame and the worst
    case compress_bound(n); a destination smaller than the chosen frame gives the 'dstSize_tooSmall' error."""
    dst, src = a[-3], a[-2]
    l, lo, hi = e.seq_of(src); n = hi - lo
    bound = n + (n >> 8) + (((128 << 10) - n) >> 11 if n < (128 << 10) else 0)
    opts = [n + 1] + ([bound] if bound > n + 1 else []) + ([2] if n > 2 else [])
    mode = e.h.get("zstd_mode")            # harness-selected deterministic codec: "token" (always compresses) / "store" (never shrinks)
    if mode == "token":
        conc = all(x.conc() for x in l[lo:hi])
        if n > 4 and conc:
            # content-addressed 4-byte frame: the codec is a function of its input (no dependence on call order)
            import hashlib
            body = bytes(x.v for x in l[lo:hi])
            key = hashlib.sha1(body).digest()[:3]
            tab = e.h.setdefault("zstd_hash_table", {})
            if tab.setdefault(key, body) != body:
                raise Unsupported("zstd stub: hash collision")
            dl, dlo, dhi = e.seq_of(dst)
            if dhi - dlo < 4:
                return err(usize(70))
            dl[dlo:dlo + 4] = [Int(8, 0, ZMAGIC + 3)] + [Int(8, 0, b) for b in key]
            e.notes["zstd_frame_lengths"] = "4 (content-addressed token) for inputs longer than 4 bytes, else n+1"
            return ok(usize(4))
        need = n + 1 if conc or n <= 2 else 2
    elif mode == "store":
        need = n + 1
    else:
        need = opts[e.choose(len(opts))] if len(opts) > 1 else opts[0]
    dl, dlo, dhi = e.seq_of(dst)
    if dhi - dlo < need:
        return err(usize(70))
    if need == 2 and n > 2:
        # a frame shorter than the input: an opaque token resolved through a side table (still lossless)
        tab = e.h.setdefault("zstd_table", [])
        tab.append(list(l[lo:hi]))
        dl[dlo:dlo + 2] = [Int(8, 0, ZMAGIC + 2), Int(8, 0, len(tab) - 1)]
        e.notes["zstd_frame_lengths"] = "2 (token), n+1 or compress_bound(n)"
        return ok(usize(2))
    # frame = magic, payload; a worst-case frame carries its payload length after a second magic so that decoding is exact
    if need == n + 1:
        frame = [Int(8, 0, ZMAGIC)] + list(l[lo:hi])
    else:
        frame = [Int(8, 0, ZMAGIC + 1), Int(8, 0, n & 0xFF), Int(8, 0, (n >> 8) & 0xFF)] + list(l[lo:hi]) + [Int(8, 0, 0)] * (need - n - 3)
    dl[dlo:dlo + need] = frame
    e.notes["zstd_frame_lengths"] = "n+1 or compress_bound(n)"
    return ok(usize(need))


@model(r"^(zstd_safe::)?get_error_name$")
def zstd_error_name(e, c, a):
    return e.str_slice(b"Destination buffer is too small")
