"""I/O, sync and misc models (files, cursors, mutexes...). Filled in as properties need them."""
import re
import z3
from .values import *
from .values import b_not, b_and, b_or, copy_val, deep_clone
from .mirparse import split_top
from .models import model, load, deref_all, usize, values_eq, values_cmp


# ---------------------------------------------------------------------- ranges
@model(r"RangeInclusive::<.*>::new$")
def rangeincl_new(e, c, a):
    return Agg([a[0], a[1], False], ty="RangeInclusive")


@model(r"RangeInclusive::<.*>::(start|end)$")
def rangeincl_bounds(e, c, a):
    r = a[0]
    return Ref(r.cell, r.path + (("f", 0 if c.endswith("start") else 1),))


@model(r"Range(Inclusive|From|To)?::<.*>::contains::<|<Range(Inclusive)?<.*> as RangeBounds<.*>>::contains")
def range_contains(e, c, a):
    r = deref_all(e, a[0]); v = deref_all(e, a[1])
    if r.ty == "RangeInclusive":
        return b_and(e.binop("Ge", v, r.f[0]), e.binop("Le", v, r.f[1]))
    if r.ty == "Range":
        return b_and(e.binop("Ge", v, r.f[0]), e.binop("Lt", v, r.f[1]))
    if r.ty == "RangeFrom":
        return e.binop("Ge", v, r.f[0])
    if r.ty == "RangeTo":
        return e.binop("Lt", v, r.f[0])
    raise Unsupported("contains on " + r.ty)


@model(r"Range::<.*>::(is_empty|len)$|<Range<.*> as ExactSizeIterator>::len$")
def range_len(e, c, a):
    r = deref_all(e, a[0])
    if c.endswith("is_empty"):
        return e.binop("Ge", r.f[0], r.f[1])
    lt = e.binop("Lt", r.f[0], r.f[1])
    from .models import ite_int
    return ite_int(lt, e.binop("Sub", r.f[1], r.f[0]), Int(r.f[0].w, r.f[0].s, 0))
