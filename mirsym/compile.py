"""Compile raw MIR statement strings into tuples (done lazily, once per basic block)."""
import re
from .values import Unsupported
from .mirparse import split_top, match_close, BINOPS, CHECKED, UNOPS, TRANSPARENT

CAST_RE = re.compile(r"^(.*) as (.+?) \((IntToInt|IntToFloat|FloatToInt|FloatToFloat|Transmute|PtrToPtr|FnPtrToPtr|"
                     r"PointerExposeProvenance|PointerWithExposedProvenance|PointerCoercion\(.*?\)(?:, \w+)?|Subtype)\)$")


def pointee(t):
    t = t.strip()
    m = re.match(r"^&(?:'\w+ )?(?:mut )?(.*)$", t)
    if m:
        return m.group(1)
    m = re.match(r"^\*(?:const|mut) (.*)$", t)
    if m:
        return m.group(1)
    m = re.match(r"^(?:std::boxed::)?Box<(.*)>$", t)
    if m:
        return split_top(m.group(1))[0]
    return "?"


def is_transparent(t):
    return t.startswith(TRANSPARENT)


class Compiler:
    def __init__(self, func):
        self.f = func

    # ---------------------------------------------------------------- places
    def place(self, s):
        """-> (local, projections tuple, type string)"""
        s = s.strip()
        if re.fullmatch(r"_\d+", s):
            return s, (), self.f.types.get(s, "?")
        if s.startswith("("):
            j = match_close(s, 0)
            inner, rest = s[1:j], s[j + 1:]
            if inner.startswith("*"):
                l, p, t = self.place(inner[1:])
                l, p, t = l, p + (("deref",),), pointee(t)
            else:
                m = re.match(r"^(.*) as (\w+)$", inner)
                k = self._field_split(inner)
                if k is not None:
                    l, p, bt = self.place(inner[:k])
                    fm = re.match(r"^\.(\d+): (.*)$", inner[k:], re.S)
                    ft = fm.group(2)
                    if is_transparent(bt):
                        t = ft                      # wrapper field: same storage
                    else:
                        p, t = p + (("field", int(fm.group(1))),), ft
                elif m:
                    l, p, t = self.place(m.group(1))
                    p = p + (("down", m.group(2)),)
                else:
                    raise Unsupported("place " + s)
            return self._suffix(l, p, t, rest)
        m = re.match(r"^(_\d+)(.*)$", s)
        if m:
            return self._suffix(m.group(1), (), self.f.types.get(m.group(1), "?"), m.group(2))
        raise Unsupported("place " + s)

    def _field_split(self, inner):
        depth = 0
        for i, c in enumerate(inner):
            if c in "([<":
                depth += 1
            elif c in ")]>":
                if not (c == ">" and inner[i - 1] in "-="):
                    depth -= 1
            elif c == "." and depth == 0 and re.match(r"\.\d+: ", inner[i:]):
                return i
        return None

    def _suffix(self, l, p, t, rest):
        rest = rest.strip()
        while rest:
            if rest.startswith("["):
                j = match_close(rest, 0); idx = rest[1:j]; rest = rest[j + 1:].strip()
                m = re.match(r"^(-?)(\d+) of (\d+)$", idx)
                m2 = re.match(r"^(\d+):(-?)(\d+)$", idx) or re.match(r"^(\d+)\.\.(-?)(\d*)$", idx)
                if m:
                    p = p + (("cidx", int(m.group(2)), m.group(1) == "-"),)
                elif m2:
                    p = p + (("subslice", int(m2.group(1)), int(m2.group(3) or 0), m2.group(2) == "-"),)
                else:
                    p = p + (("idx", idx.strip()),)
                em = re.match(r"^\[(.*); .*\]$|^\[(.*)\]$", t.strip())
                t = (em.group(1) or em.group(2)) if em else "?"
            elif rest.startswith("."):
                m = re.match(r"^\.(\d+)", rest)
                p = p + (("field", int(m.group(1))),); rest = rest[m.end():]; t = "?"
            else:
                raise Unsupported("place suffix " + rest)
        return l, p, t

    # ---------------------------------------------------------------- operands
    def operand(self, s):
        s = s.strip()
        if s.startswith("copy "):
            l, p, _ = self.place(s[5:]); return ("copy", l, p)
        if s.startswith("move "):
            l, p, _ = self.place(s[5:]); return ("move", l, p)
        if s.startswith("const "):
            return ("const", s[6:].strip(), [])
        if re.match(r"^[A-Za-z_<{]", s) and "::" in s:
            return ("const", s, [])          # zero-sized fn item / constructor printed as a bare path
        raise Unsupported("operand " + s)

    # ---------------------------------------------------------------- rvalues
    def rvalue(self, s):
        s = s.strip()
        if s.startswith("no_retag "):
            s = s[9:]
        cm = CAST_RE.match(s)
        if cm and s.startswith(("copy ", "move ", "const ")):
            return ("cast", cm.group(3).split("(")[0], self.operand(cm.group(1)), cm.group(2).strip())
        if s.startswith(("copy ", "move ", "const ")):
            return ("use", self.operand(s))
        m = re.match(r"^(\w+)\((.*)\)$", s, re.S)
        if m:
            op = m.group(1)
            if op in BINOPS:
                a, b = split_top(m.group(2)); return ("binop", op, self.operand(a), self.operand(b))
            if op in CHECKED:
                a, b = split_top(m.group(2)); return ("checked", op[:3], self.operand(a), self.operand(b))
            if op in UNOPS:
                return ("unop", op, self.operand(m.group(2)))
            if op == "discriminant":
                l, p, _ = self.place(m.group(2)); return ("discr", l, p)
            if op == "Len":
                l, p, _ = self.place(m.group(2)); return ("len", l, p)
            if op == "CopyForDeref":
                l, p, _ = self.place(m.group(2)); return ("use", ("copy", l, p))
        if s.startswith("&raw "):
            s2 = re.sub(r"^&raw (const|mut) (\(fake\) )?", "", s)
            l, p, _ = self.place(s2); return ("ref", l, p)
        if s.startswith("&"):
            s2 = re.sub(r"^&(fake shallow |mut )?", "", s)
            l, p, _ = self.place(s2); return ("ref", l, p)
        if s.startswith("{closure@") or s.startswith("{coroutine@"):
            j = match_close(s, 0); rest = s[j + 1:].strip()
            caps = []
            if rest.startswith("{"):
                for fld in split_top(rest[1:-1]):
                    caps.append(self.operand(fld.split(":", 1)[1]))
            return ("agg", s[:j + 1], None, caps)
        if s.startswith("(") and s.endswith(")") and match_close(s, 0) == len(s) - 1:
            return ("agg", "tuple", None, [self.operand(a) for a in split_top(s[1:-1])])
        if s.startswith("[") and s.endswith("]") and match_close(s, 0) == len(s) - 1:
            inner = s[1:-1]
            parts = split_top(inner, ";")
            if len(parts) == 2:
                return ("repeat", self.operand(parts[0]), parts[1].strip())
            return ("agg", "array", None, [self.operand(a) for a in split_top(inner)])
        # struct / enum variant aggregates
        if s.endswith("}"):
            d, i = 0, len(s) - 1
            while i >= 0:
                if s[i] == "}":
                    d += 1
                elif s[i] == "{":
                    d -= 1
                    if d == 0:
                        break
                i -= 1
            if i > 0:
                fields = [self.operand(f.split(":", 1)[1]) for f in split_top(s[i + 1:-1])]
                return ("adt", s[:i].strip(), fields)
        if s.endswith(")"):
            d, i = 0, len(s) - 1
            while i >= 0:
                if s[i] == ")":
                    d += 1
                elif s[i] == "(":
                    d -= 1
                    if d == 0:
                        break
                i -= 1
            if i > 0:
                return ("adt", s[:i].strip(), [self.operand(a) for a in split_top(s[i + 1:-1])])
        if re.match(r"^[\w:<>, '&\[\];()]+$", s):
            return ("adt", s, [])
        raise Unsupported("rvalue " + s)

    # ---------------------------------------------------------------- statements / terminators
    def stmt(self, t):
        if t.startswith("discriminant("):
            m = re.match(r"^discriminant\((.*)\) = (\d+)$", t)
            l, p, _ = self.place(m.group(1)); return ("setdiscr", l, p, int(m.group(2)))
        if t.startswith("assume("):
            return ("nop",)
        lhs, rhs = t.split(" = ", 1)
        l, p, _ = self.place(lhs)
        return ("assign", l, p, self.rvalue(rhs))

    def terminator(self, t):
        if t == "return":
            return ("return",)
        if t.startswith("goto -> "):
            return ("goto", t[8:])
        if t in ("unreachable", "resume", "abort", "terminate(cleanup)", "terminate(abi)"):
            return ("unreachable", t)
        if t.startswith("switchInt("):
            j = match_close(t, 9)
            op = self.operand(t[10:j])
            tg = t[t.index("[", j) + 1:t.rindex("]")]
            cases, other = [], None
            for x in split_top(tg):
                k, d = x.split(": ")
                if k == "otherwise":
                    other = d
                else:
                    cases.append((int(k), d))
            return ("switch", op, cases, other)
        if t.startswith("assert("):
            j = match_close(t, 6)
            inner = split_top(t[7:j])
            c = inner[0]; neg = c.startswith("!"); c = c.lstrip("!")
            msg = inner[1] if len(inner) > 1 else ""
            succ = re.search(r"success: (bb\d+)", t[j:]) or re.search(r"-> (bb\d+)", t[j:])
            return ("assert", self.operand(c), not neg, msg.strip('"'), succ.group(1))
        if t.startswith("drop("):
            j = match_close(t, 4)
            l, p, _ = self.place(t[5:j])
            m = re.search(r"return: (bb\d+)", t[j:]) or re.search(r"-> (bb\d+)", t[j:])
            return ("drop", l, p, m.group(1))
        if t.startswith(("falseEdge", "falseUnwind")):
            m = re.search(r"real: (bb\d+)", t); return ("goto", m.group(1))
        # call
        arrow = t.rindex(" -> ")
        head, tail = t[:arrow], t[arrow + 4:]
        ret = None
        m = re.match(r"^\[return: (bb\d+)", tail)
        if m:
            ret = m.group(1)
        elif re.match(r"^bb\d+$", tail):
            ret = tail
        if " = " in head and re.match(r"^[_(]", head):
            lhs, call = head.split(" = ", 1)
            l, p, _ = self.place(lhs); dest = (l, p)
        else:
            dest, call = None, head
        assert call.endswith(")"), t
        d, i = 0, len(call) - 1
        while i >= 0:
            if call[i] == ")":
                d += 1
            elif call[i] == "(":
                d -= 1
                if d == 0:
                    break
            elif call[i] == '"':
                i -= 1
                while i >= 0 and not (call[i] == '"' and call[i - 1] != "\\"):
                    i -= 1
            i -= 1
        callee, argtxt = call[:i].strip(), call[i + 1:-1]
        args = [self.operand(a) for a in split_top(argtxt)]
        if callee.startswith(("move _", "copy _")):
            l, p, _ = self.place(callee[5:]); callee = ("local", l, p)
        return ("call", dest, callee, args, ret)

    def block(self, raw):
        stmts = [self.stmt(t) for t in raw[:-1]]
        return stmts, self.terminator(raw[-1])
