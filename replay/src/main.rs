//! Native replay of solver counterexamples and concrete differential runs against the real ragc code.
//! Usage: replay <command> <json-file>   → prints one JSON object on stdout.
//! A panic inside the real code is caught and reported as {"panic": "..."}.
#![allow(clippy::all)]
use serde_json::{json, Value};
use std::panic::{catch_unwind, AssertUnwindSafe};

#[path = "../../kani/src/kmer_checks.rs"]
mod kmer_checks;
mod cmds;
mod indep;

fn main() {
    let args: Vec<String> = std::env::args().collect();
    if args.len() < 3 {
        eprintln!("usage: replay <command> <json-file>");
        std::process::exit(2);
    }
    let txt = std::fs::read_to_string(&args[2]).expect("read input");
    let input: Value = serde_json::from_str(&txt).expect("json");
    std::panic::set_hook(Box::new(|_| {}));
    // a batch is {"batch":[case,...]} → {"results":[...]}
    let run_one = |case: &Value| -> Value {
        let r = catch_unwind(AssertUnwindSafe(|| cmds::dispatch(&args[1], case)));
        match r {
            Ok(v) => v,
            Err(e) => {
                let msg = if let Some(s) = e.downcast_ref::<String>() {
                    s.clone()
                } else if let Some(s) = e.downcast_ref::<&str>() {
                    s.to_string()
                } else {
                    "panic".to_string()
                };
                json!({ "panic": msg })
            }
        }
    };
    let out = if let Some(b) = input.get("batch").and_then(|b| b.as_array()) {
        json!({ "results": b.iter().map(|c| run_one(c)).collect::<Vec<_>>() })
    } else {
        run_one(&input)
    };
    println!("{}", out);
    // some commands may leave blocked threads behind: do not wait for them
    std::process::exit(0);
}
