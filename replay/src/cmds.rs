use crate::kmer_checks;
use serde_json::{json, Value};

pub fn bytes(v: &Value) -> Vec<u8> {
    v.as_array().expect("array").iter().map(|x| x.as_u64().expect("u8") as u8).collect()
}

pub fn dispatch(cmd: &str, c: &Value) -> Value {
    match cmd {
        "kmer_slide" => kmer_slide(c),
        "kmer_inv" => kmer_inv(c),
        "kmer_restart" => kmer_restart(c),
        "enum_kmers" => enum_kmers(c),
        "tuple_roundtrip" => tuple_roundtrip(c),
        "lz_roundtrip" => lz_roundtrip(c),
        "segment" => segment(c),
        "archive_ops" => archive_ops(c),
        "open_prefix" => open_prefix(c),
        "archive_fault" => archive_fault(c),
        "fasta_parse" => fasta_parse(c),
        "refseg_roundtrip" => refseg_roundtrip(c),
        "splitters" => splitters(c),
        "splitter_variants" => splitter_variants(c),
        "reader_history" => reader_history(c),
        "lz_estimate" => lz_estimate(c),
        "push_priority" => push_priority(c),
        "queue_seq" => queue_seq(c),
        "queue_conc" => queue_conc(c),
        "catalogue" => catalogue(c),
        "details_batches" => details_batches(c),
        "pipeline" => pipeline(c),
        "seg_history" => seg_history(c),
        "pipeline_dump" => pipeline_dump(c),
        "varint" => varint(c),
        "collvarint" => collvarint(c),
        "stream_names" => stream_names(c),
        "fasta_present" => fasta_present(c),
        "pansn" => pansn(c),
        "file_naming" => file_naming(c),
        #[cfg(ekg_ragc_verif)]
        "range_query" => range_query(c),
        #[cfg(ekg_ragc_verif)]
        "reassemble" => reassemble(c),
        #[cfg(ekg_ragc_verif)]
        "split_at" => split_at(c),
        #[cfg(ekg_ragc_verif)]
        "pack_step" => pack_step(c),
        _ => json!({"error": format!("unknown command {}", cmd)}),
    }
}

macro_rules! by_k {
    ($k:expr, $f:ident, $arg:expr; $($kk:literal $nn:literal),*) => {
        match $k { $($kk => $f::<$kk, $nn>($arg),)* _ => panic!("k out of range") }
    };
}

fn slide_k<const K: usize, const N: usize>(seq: &[u8]) -> u32 {
    let mut a = [0u8; N];
    a.copy_from_slice(&seq[..N]);
    kmer_checks::slide_checks::<K, N>(&a)
}
fn inv_k<const K: usize, const N: usize>(w: u64) -> u32 {
    kmer_checks::involution_checks::<K>(w)
}

fn kmer_slide(c: &Value) -> Value {
    let k = c["k"].as_u64().unwrap() as usize;
    let seq = bytes(&c["seq"]);
    let code = by_k!(k, slide_k, &seq; 1 3, 2 4, 3 5, 4 6, 5 7, 6 8, 7 9, 8 10, 9 11, 10 12, 11 13, 12 14,
        13 15, 14 16, 15 17, 16 18, 17 19, 18 20, 19 21, 20 22, 21 23, 22 24, 23 25, 24 26, 25 27, 26 28,
        27 29, 28 30, 29 31, 30 32, 31 33, 32 34);
    json!({ "code": code })
}

fn restart_k<const K: usize, const N: usize>(a: (&[u8], usize, &[u8])) -> u32 {
    let mut pre = [0u8; N];
    pre.copy_from_slice(&a.0[..N]);
    let mut w = [0u8; K];
    w.copy_from_slice(&a.2[..K]);
    kmer_checks::restart_checks::<K, N>(&pre, a.1, &w)
}

fn kmer_restart(c: &Value) -> Value {
    let k = c["k"].as_u64().unwrap() as usize;
    let pre = bytes(&c["prefix"]);
    let w = bytes(&c["w"]);
    let p = c["p"].as_u64().unwrap() as usize;
    let code = by_k!(k, restart_k, (&pre[..], p, &w[..]); 1 3, 2 4, 3 5, 4 6, 5 7, 6 8, 7 9, 8 10, 9 11, 10 12, 11 13, 12 14,
        13 15, 14 16, 15 17, 16 18, 17 19, 18 20, 19 21, 20 22, 21 23, 22 24, 23 25, 24 26, 25 27, 26 28,
        27 29, 28 30, 29 31, 30 32, 31 33, 32 34);
    json!({ "code": code })
}

/// C20 (E2 part): enumerate_kmers on a contig with non-ACGT codes
fn enum_kmers(c: &Value) -> Value {
    let k = c["k"].as_u64().unwrap() as usize;
    let seq = bytes(&c["seq"]);
    let v = ragc_core::kmer_extract::enumerate_kmers(&seq, k);
    json!({ "kmers": v.iter().map(|x| x.to_string()).collect::<Vec<_>>() })
}

fn kmer_inv(c: &Value) -> Value {
    let k = c["k"].as_u64().unwrap() as usize;
    let w = c["w"].as_u64().unwrap();
    let code = by_k!(k, inv_k, w; 1 3, 2 4, 3 5, 4 6, 5 7, 6 8, 7 9, 8 10, 9 11, 10 12, 11 13, 12 14,
        13 15, 14 16, 15 17, 16 18, 17 19, 18 20, 19 21, 20 22, 21 23, 22 24, 23 25, 24 26, 25 27, 26 28,
        27 29, 28 30, 29 31, 30 32, 31 33, 32 34);
    json!({ "code": code })
}

// ---------------------------------------------------------------- C12 tuple packing
pub fn tuple_roundtrip(c: &Value) -> Value {
    use ragc_core::tuple_packing::{bytes_to_tuples, tuples_to_bytes};
    let b = bytes(&c["b"]);
    let packed = bytes_to_tuples(&b);
    let unpacked = tuples_to_bytes(&packed);
    json!({ "input": b, "packed": packed, "unpacked": unpacked })
}

// ---------------------------------------------------------------- C09 LZ diff
pub fn lz_roundtrip(c: &Value) -> Value {
    use ragc_core::lz_diff::LZDiff;
    let r = bytes(&c["ref"]);
    let t = bytes(&c["tgt"]);
    let mm = c["mm"].as_u64().unwrap() as u32;
    let mut lz = LZDiff::new(mm);
    lz.prepare(&r);
    let enc = lz.encode(&t);
    let dec = if enc.is_empty() { r.clone() } else { lz.decode(&enc) };
    let ok = dec == t && !enc.contains(&0xFF);
    json!({ "enc": enc, "dec": dec, "ok": ok })
}

// ---------------------------------------------------------------- C10 segmentation
pub fn segment(c: &Value) -> Value {
    use ragc_core::segment::{split_at_splitters, split_at_splitters_with_size, MISSING_KMER};
    let contig = bytes(&c["contig"]);
    let k = c["k"].as_u64().unwrap() as usize;
    let spl: ahash::AHashSet<u64> = c["splitters"].as_array().unwrap().iter().map(|x| x.as_str().unwrap().parse::<u64>().unwrap()).collect();
    let segs = if c["fn"].as_str().unwrap() == "split_at_splitters" { split_at_splitters(&contig, &spl, k) } else { split_at_splitters_with_size(&contig, &spl, k, 1000) };
    // native statement of the C10 relations
    let mut ok = !segs.is_empty();
    let mut why = String::new();
    let mut pos = 0usize;
    let pack = |w: &[u8]| -> Option<(u64, bool)> {
        if w.iter().any(|&b| b > 3) { return None; }
        let mut d = 0u64; let mut r = 0u64;
        for j in 0..k { d |= (w[j] as u64) << (62 - 2 * j); r |= ((3 - w[k - 1 - j]) as u64) << (62 - 2 * j); }
        Some((d.min(r), d <= r))
    };
    let mut bounds = vec![];
    for (i, s) in segs.iter().enumerate() {
        let l = s.data.len();
        if i > 0 && l < k { ok = false; why = format!("segment {} shorter than k", i); break; }
        if i > 0 && pos < k { ok = false; why = "overlap before start".into(); break; }
        let start = if i == 0 { pos } else { pos - k };
        if start + l > contig.len() || s.data[..] != contig[start..start + l] { ok = false; why = format!("segment {} not contig[{}..{}]", i, start, start + l); break; }
        bounds.push((start, start + l));
        pos = start + l;
    }
    if ok && pos != contig.len() { ok = false; why = "segments do not end at the contig end".into(); }
    if ok {
        if segs[0].front_kmer != MISSING_KMER || segs[segs.len() - 1].back_kmer != MISSING_KMER || segs[0].front_kmer_is_dir || segs[segs.len() - 1].back_kmer_is_dir { ok = false; why = "end k-mers not missing".into(); }
        for i in 0..segs.len().saturating_sub(1) {
            let en = bounds[i].1;
            match pack(&contig[en - k..en]) {
                None => { ok = false; why = format!("boundary {} contains non-ACGT", i); }
                Some((can, isdir)) => {
                    if !spl.contains(&can) { ok = false; why = format!("boundary {} k-mer not a splitter", i); }
                    if segs[i].back_kmer != can || segs[i + 1].front_kmer != can || segs[i].back_kmer_is_dir != isdir || segs[i + 1].front_kmer_is_dir != isdir { ok = false; why = format!("boundary {} k-mer record wrong", i); }
                }
            }
        }
        for (i, &(_st, en)) in bounds.iter().enumerate() {
            let first_end = (if i > 0 { bounds[i - 1].1 } else { 0 }) + k - 1;
            let last_end = if i + 1 < bounds.len() { en as i64 - 2 } else { en as i64 - 1 };
            let mut p = first_end as i64;
            while p <= last_end {
                let pu = p as usize;
                if pu + 1 >= k { if let Some((can, _)) = pack(&contig[pu + 1 - k..pu + 1]) { if spl.contains(&can) { ok = false; why = format!("missed split at {}", pu); } } }
                p += 1;
            }
        }
    }
    let js: Vec<Value> = segs.iter().map(|s| json!({"data": s.data, "front": s.front_kmer, "back": s.back_kmer, "front_dir": s.front_kmer_is_dir, "back_dir": s.back_kmer_is_dir})).collect();
    json!({ "segments": js, "ok": ok, "why": why })
}

// ---------------------------------------------------------------- C07 range / length queries
#[cfg(ekg_ragc_verif)]
pub fn reader_over_segments(k: u32, segs: &[(Vec<u8>, bool)]) -> ragc_core::Decompressor {
    use ragc_common::{Archive, CollectionV3};
    let mut coll = CollectionV3::new();
    coll.register_sample_contig("s", "s").unwrap();
    let mut cache = std::collections::HashMap::new();
    for (i, (data, rc)) in segs.iter().enumerate() {
        coll.add_segment_placed("s", "s", i, 16 + i as u32, 0, *rc, data.len() as u32).unwrap();
        cache.insert(16 + i as u32, data.clone());
    }
    ragc_core::Decompressor::verif_from_parts(Archive::new_reader(), coll, k, 20, cache)
}

#[cfg(ekg_ragc_verif)]
pub fn range_query(c: &Value) -> Value {
    let k = c["k"].as_u64().unwrap() as u32;
    let segs: Vec<(Vec<u8>, bool)> = c["segments"].as_array().unwrap().iter().map(|s| (bytes(&s["data"]), s["rc"].as_bool().unwrap())).collect();
    let start: usize = c["start"].as_str().map(|s| s.parse().unwrap()).unwrap_or_else(|| c["start"].as_u64().unwrap() as usize);
    let end: usize = c["end"].as_str().map(|s| s.parse().unwrap()).unwrap_or_else(|| c["end"].as_u64().unwrap() as usize);
    let mut d = reader_over_segments(k, &segs);
    let full = d.get_contig("s", "s").unwrap();
    let len = d.get_contig_length("s", "s").unwrap();
    let range = d.get_contig_range("s", "s", start, end).unwrap();
    let e = end.min(full.len());
    let expect: Vec<u8> = if start >= end || start >= full.len() { vec![] } else { full[start..e].to_vec() };
    json!({ "full": full, "len": len, "range": range, "ok": len == full.len() && range == expect })
}

// ---------------------------------------------------------------- C13 archive container
fn tmp_path(tag: &str) -> std::path::PathBuf {
    let mut p = std::env::temp_dir();
    p.push(format!("ragc-replay-{}-{}-{}.agc", tag, std::process::id(), std::time::SystemTime::now().duration_since(std::time::UNIX_EPOCH).unwrap().as_nanos()));
    p
}

fn u64_of(v: &Value) -> u64 {
    v.as_u64().unwrap_or_else(|| v.as_str().map(|s| s.parse().unwrap()).unwrap_or(0))
}

pub fn archive_ops(c: &Value) -> Value {
    use ragc_common::Archive;
    let path = tmp_path("c13");
    let mut names: Vec<String> = vec![];
    let mut parts: Vec<Vec<(Vec<u8>, u64)>> = vec![];
    let mut buf: std::collections::BTreeMap<usize, Vec<(Vec<u8>, u64)>> = Default::default();
    let mut raw: Vec<u64> = vec![];
    let mut why = String::new();
    {
        let mut ar = Archive::new_writer();
        ar.open(&path).unwrap();
        for op in c["ops"].as_array().unwrap() {
            let o = op.as_array().unwrap();
            match o[0].as_str().unwrap() {
                "reg" => {
                    let nm = o[1].as_str().unwrap().to_string();
                    let id = ar.register_stream(&nm);
                    let exp = match names.iter().position(|n| *n == nm) { Some(i) => i, None => { names.push(nm); parts.push(vec![]); raw.push(0); names.len() - 1 } };
                    if id != exp { why = format!("register returned {} expected {}", id, exp); }
                }
                "add" => { let sid = o[1].as_u64().unwrap() as usize; let d = bytes(&o[2]); let m = u64_of(&o[3]); ar.add_part(sid, &d, m).unwrap(); parts[sid].push((d, m)); }
                "buf" => { let sid = o[1].as_u64().unwrap() as usize; let d = bytes(&o[2]); let m = u64_of(&o[3]); ar.add_part_buffered(sid, d.clone(), m); buf.entry(sid).or_default().push((d, m)); }
                "raw" => { let sid = o[1].as_u64().unwrap() as usize; let r = u64_of(&o[2]); ar.set_raw_size(sid, r); raw[sid] = r; }
                _ => { ar.flush_buffers().unwrap(); for (sid, ps) in std::mem::take(&mut buf) { parts[sid].extend(ps); } }
            }
        }
        ar.flush_buffers().unwrap();
        for (sid, ps) in std::mem::take(&mut buf) { parts[sid].extend(ps); }
        ar.close().unwrap();
    }
    let mut rd = Archive::new_reader();
    let mut ok = why.is_empty();
    match rd.open(&path) {
        Err(e) => { ok = false; why = format!("reopen failed: {}", e); }
        Ok(()) => {
            let mut cur = vec![0usize; names.len()];
            let mut chk = |sid: usize, pid: usize, d: &Vec<u8>, m: u64, ok: &mut bool, why: &mut String| {
                let (ed, em) = &parts[sid][pid];
                let em = if ed.is_empty() { 0 } else { *em };
                if d != ed || m != em { *ok = false; *why = format!("part ({},{}) differs", sid, pid); }
            };
            let mut seq = |rd: &mut Archive, sid: usize, cur: &mut Vec<usize>, ok: &mut bool, why: &mut String| {
                match rd.get_part(sid).unwrap() {
                    None => { if cur[sid] < parts[sid].len() { *ok = false; *why = format!("get_part({}) None too early", sid); } }
                    Some((d, m)) => { if cur[sid] >= parts[sid].len() { *ok = false; *why = format!("get_part({}) extra part", sid); } else { let (ed, em) = &parts[sid][cur[sid]]; let em = if ed.is_empty() { 0 } else { *em }; if d != *ed || m != em { *ok = false; *why = format!("sequential part ({},{}) differs", sid, cur[sid]); } cur[sid] += 1; } }
                }
            };
            for r in c["reads"].as_array().unwrap() {
                let o = r.as_array().unwrap();
                if o[0].as_str().unwrap() == "seq" { seq(&mut rd, o[1].as_u64().unwrap() as usize, &mut cur, &mut ok, &mut why); }
                else { let (s, p) = (o[1].as_u64().unwrap() as usize, o[2].as_u64().unwrap() as usize); let (d, m) = rd.get_part_by_id(s, p).unwrap(); chk(s, p, &d, m, &mut ok, &mut why); }
            }
            if rd.get_num_streams() != names.len() { ok = false; why = "stream count".into(); }
            for (sid, nm) in names.iter().enumerate() {
                if rd.get_stream_id(nm) != Some(sid) || rd.get_stream_name(sid) != Some(nm.as_str()) { ok = false; why = format!("stream {} id/name", sid); }
                if rd.get_num_parts(sid) != parts[sid].len() { ok = false; why = format!("stream {} part count {} != {}", sid, rd.get_num_parts(sid), parts[sid].len()); continue; }
                if rd.get_raw_size(sid) != raw[sid] { ok = false; why = format!("stream {} raw size", sid); }
                for pid in 0..parts[sid].len() { let (d, m) = rd.get_part_by_id(sid, pid).unwrap(); chk(sid, pid, &d, m, &mut ok, &mut why); }
            }
            for sid in 0..names.len() {
                while cur[sid] < parts[sid].len() && ok { seq(&mut rd, sid, &mut cur, &mut ok, &mut why); }
                if ok { seq(&mut rd, sid, &mut cur, &mut ok, &mut why); }
            }
        }
    }
    let file = std::fs::read(&path).unwrap_or_default();
    let _ = std::fs::remove_file(&path);
    json!({ "ok": ok, "why": why, "file": file })
}

// ---------------------------------------------------------------- C14 truncated archives
pub fn open_prefix(c: &Value) -> Value {
    let file = bytes(&c["file"]);
    let n = c["n"].as_u64().unwrap() as usize;
    let path = tmp_path("c14");
    std::fs::write(&path, &file[..n]).unwrap();
    let mut ar = ragc_common::Archive::new_reader();
    let a = ar.open(&path);
    let archive_ok = a.is_ok();
    // acceptance up to (not including) the ZSTD-coded sample table: what Decompressor::open checks first
    let mut pre_ok = archive_ok;
    if archive_ok {
        for nm in ["params", "collection-samples", "collection-contigs", "collection-details"] {
            if ar.get_stream_id(nm).is_none() { pre_ok = false; }
        }
        if pre_ok {
            let sid = ar.get_stream_id("params").unwrap();
            pre_ok = ar.get_num_parts(sid) == 1 && ar.get_part_by_id(sid, 0).map(|(d, _)| d.len() >= 12).unwrap_or(false);
        }
    }
    drop(ar);
    let r = std::panic::catch_unwind(|| ragc_core::Decompressor::open(path.to_str().unwrap(), ragc_core::DecompressorConfig { verbosity: 0 }).is_ok());
    let _ = std::fs::remove_file(&path);
    match r {
        Ok(opened) => json!({ "archive_open_ok": archive_ok, "opened": opened || pre_ok, "opened_fully": opened }),
        Err(_) => json!({ "panic": "Decompressor::open panicked", "archive_open_ok": archive_ok }),
    }
}

// ---------------------------------------------------------------- C15 write faults (RLIMIT_FSIZE makes write(2) fail with EFBIG at offset phi)
pub fn archive_fault(c: &Value) -> Value {
    use ragc_common::Archive;
    extern "C" { fn setrlimit(resource: i32, rlim: *const [u64; 2]) -> i32; fn signal(signum: i32, handler: usize) -> usize; }
    let phi = c["phi"].as_u64().unwrap();
    let path = tmp_path("c15");
    unsafe { signal(25, 1); }                       // SIGXFSZ -> SIG_IGN so that write returns EFBIG
    let lim = [phi, u64::MAX];
    unsafe { setrlimit(1, &lim); }                 // RLIMIT_FSIZE
    let mut names: Vec<String> = vec![];
    let mut failed = false;
    let mut ar = Archive::new_writer();
    if ar.open(&path).is_err() { return json!({"error": "open failed"}); }
    for op in c["ops"].as_array().unwrap() {
        let o = op.as_array().unwrap();
        let r = match o[0].as_str().unwrap() {
            "reg" => { let nm = o[1].as_str().unwrap().to_string(); ar.register_stream(&nm); if !names.contains(&nm) { names.push(nm); } Ok(()) }
            "add" => ar.add_part(o[1].as_u64().unwrap() as usize, &bytes(&o[2]), u64_of(&o[3])),
            "buf" => { ar.add_part_buffered(o[1].as_u64().unwrap() as usize, bytes(&o[2]), u64_of(&o[3])); Ok(()) }
            "raw" => { ar.set_raw_size(o[1].as_u64().unwrap() as usize, u64_of(&o[2])); Ok(()) }
            _ => ar.flush_buffers(),
        };
        if r.is_err() { failed = true; break; }
    }
    if !failed { failed = ar.flush_buffers().is_err() || ar.close().is_err(); }
    drop(ar);
    let inf = [u64::MAX, u64::MAX];
    unsafe { setrlimit(1, &inf); }
    // complete iff it reopens with the registered streams
    let mut complete = false;
    let mut rd = Archive::new_reader();
    if rd.open(&path).is_ok() { complete = rd.get_num_streams() == names.len(); }
    let size = std::fs::metadata(&path).map(|m| m.len()).unwrap_or(0);
    let _ = std::fs::remove_file(&path);
    json!({ "reported_error": failed, "complete": complete, "size": size, "ok": failed || complete })
}

// ---------------------------------------------------------------- C16 / C19 FASTA reader
pub fn parse_fasta_bytes(text: &[u8]) -> (Vec<(Vec<u8>, Vec<u8>)>, &'static str) {
    let mut g = ragc_core::GenomeIO::new(std::io::Cursor::new(text.to_vec()));
    let mut recs = vec![];
    loop {
        match g.read_contig_converted() {
            Err(_) => return (recs, "err"),
            Ok(None) => return (recs, "end"),
            Ok(Some((h, s))) => recs.push((h.into_bytes(), s)),
        }
        if recs.len() > text.len() + 2 { return (recs, "more"); }
    }
}

fn reference_fasta(text: &[u8]) -> (Vec<(Vec<u8>, Vec<u8>)>, bool) {
    let code = |b: u8| -> u8 { match b.to_ascii_uppercase() { b'A' => 0, b'C' => 1, b'G' => 2, b'T' => 3, b'N' => 4, b'R' => 5, b'Y' => 6, b'S' => 7, b'W' => 8, b'K' => 9, b'M' => 10, b'B' => 11, b'D' => 12, b'H' => 13, b'V' => 14, b'U' => 15, _ => 30 } };
    let mut recs: Vec<(Vec<u8>, Vec<u8>)> = vec![];
    let mut leading = false;
    for ln in text.split_inclusive(|&b| b == b'\n') {
        if ln[0] == b'>' {
            let s = String::from_utf8_lossy(ln).to_string();
            recs.push((s.trim_start_matches('>').trim().as_bytes().to_vec(), vec![]));
        } else if let Some(last) = recs.last_mut() {
            for &b in ln { if b.is_ascii_alphabetic() { last.1.push(code(b)); } }
        } else if ln.iter().any(|b| b.is_ascii_alphabetic()) { leading = true; }
    }
    (recs.into_iter().filter(|r| !r.1.is_empty()).collect(), leading)
}

pub fn fasta_parse(c: &Value) -> Value {
    let text = bytes(&c["text"]);
    let (recs, status) = parse_fasta_bytes(&text);
    let (exp, _leading) = reference_fasta(&text);
    let outside = text.first() != Some(&b'>') || {
        // a nameless record with bases is outside the claim
        let mut bad = false; let mut name_empty = false;
        for ln in text.split_inclusive(|&b| b == b'\n') {
            if ln[0] == b'>' { name_empty = String::from_utf8_lossy(ln).trim_start_matches('>').trim().is_empty(); }
            else if name_empty && ln.iter().any(|b| b.is_ascii_alphabetic()) { bad = true; }
        }
        bad
    };
    let got: Vec<(Vec<u8>, Vec<u8>)> = recs.iter().filter(|r| !r.1.is_empty()).cloned().collect();
    let ok = status == "err" || outside || got == exp;
    let js: Vec<Value> = recs.iter().map(|(h, s)| json!([h, s])).collect();
    json!({ "records": js, "status": status, "ok": ok })
}

pub fn fasta_present(c: &Value) -> Value {
    let text = bytes(&c["text"]);
    let (recs, status) = parse_fasta_bytes(&text);
    let code = |b: u8| -> u8 { match b.to_ascii_uppercase() { b'A' => 0, b'C' => 1, b'G' => 2, b'T' => 3, b'N' => 4, b'R' => 5, b'Y' => 6, b'S' => 7, b'W' => 8, b'K' => 9, b'M' => 10, b'B' => 11, b'D' => 12, b'H' => 13, b'V' => 14, b'U' => 15, _ => 30 } };
    let src: Vec<(Vec<u8>, Vec<u8>)> = c["source"].as_array().unwrap().iter().map(|r| (bytes(&r[0]), bytes(&r[1]).iter().map(|&b| code(b)).collect())).collect();
    let js: Vec<Value> = recs.iter().map(|(h, s)| json!([h, s])).collect();
    json!({ "records": js, "status": status, "ok": status == "end" && recs == src })
}

pub fn pansn(c: &Value) -> Value {
    let h = String::from_utf8(bytes(&c["h"])).unwrap();
    let (s, t) = ragc_core::genome_io::parse_sample_from_header(&h);
    let parts: Vec<&str> = h.split('#').collect();
    let (xs, xt) = if parts.len() >= 3 { (format!("{}#{}", parts[0], parts[1]), parts[2..].join("#")) } else { ("unknown".to_string(), h.clone()) };
    json!({ "sample": s.as_bytes(), "contig": t.as_bytes(), "ok": s == xs && t == xt })
}

// ---------------------------------------------------------------- C02 format kernels
pub fn varint(c: &Value) -> Value {
    let v = u64_of(&c["v"]);
    let mut b = vec![];
    ragc_common::varint::write_varint(&mut b, v).unwrap();
    let n = b.len() - 1;
    let mut ok = b[0] as usize == n && (n == 0 || b[1] != 0);
    let mut x = 0u64; for &y in &b[1..] { x = (x << 8) | y as u64; }
    ok = ok && x == v;
    let (r, used) = ragc_common::varint::read_varint(&mut std::io::Cursor::new(&b)).unwrap();
    json!({ "bytes": b, "ok": ok && r == v && used == n + 1 })
}

pub fn collvarint(c: &Value) -> Value {
    let v = c["v"].as_u64().unwrap() as u32;
    let mut b = vec![];
    ragc_common::CollectionVarInt::encode(&mut b, v);
    let (t1, t2, t3, t4) = (1u64 << 7, (1u64 << 7) + (1 << 14), (1u64 << 7) + (1 << 14) + (1 << 21), (1u64 << 7) + (1 << 14) + (1 << 21) + (1 << 28));
    let vv = v as u64;
    let exp: Vec<u8> = if vv < t1 { vec![vv as u8] } else if vv < t2 { let x = vv - t1; vec![0x80 | (x >> 8) as u8, x as u8] }
        else if vv < t3 { let x = vv - t2; vec![0xC0 | (x >> 16) as u8, (x >> 8) as u8, x as u8] }
        else if vv < t4 { let x = vv - t3; vec![0xE0 | (x >> 24) as u8, (x >> 16) as u8, (x >> 8) as u8, x as u8] }
        else { let x = vv - t4; vec![0xF0, (x >> 24) as u8, (x >> 16) as u8, (x >> 8) as u8, x as u8] };
    let mut p: &[u8] = &b;
    let d = ragc_common::CollectionVarInt::decode(&mut p).unwrap();
    json!({ "bytes": b, "ok": b == exp && d == v && p.is_empty() })
}

pub fn stream_names(c: &Value) -> Value {
    let n = c["n"].as_u64().unwrap() as u32;
    const A: &[u8] = b"0123456789ABCDEFGHIJKLMNOPQRSTUVWXYZabcdefghijklmnopqrstuvwxyz_#";
    let mut exp = vec![]; let mut x = n; loop { exp.push(A[(x & 63) as usize]); x >>= 6; if x == 0 { break; } }
    let b64 = ragc_common::stream_naming::int_to_base64(n);
    let r = ragc_common::stream_naming::stream_ref_name(3000, n);
    let d = ragc_common::stream_naming::stream_delta_name(3000, n);
    let es = String::from_utf8(exp.clone()).unwrap();
    json!({ "b64": b64.as_bytes(), "ref": r.as_bytes(), "delta": d.as_bytes(), "ok": b64.as_bytes() == &exp[..] && r == format!("x{}r", es) && d == format!("x{}d", es) })
}

// ---------------------------------------------------------------- C03 catalogue round trip through a real archive file
pub fn catalogue(c: &Value) -> Value {
    use ragc_common::{Archive, CollectionV3};
    let path = tmp_path("c03");
    let s = |v: &Value| String::from_utf8_lossy(&bytes(v)).to_string();
    let samples = c["samples"].as_array().unwrap();
    let mut coll = CollectionV3::new();
    coll.set_config(c["segment_size"].as_u64().unwrap_or(1000) as u32, c["k"].as_u64().unwrap_or(21) as u32, None);
    let mut ar = Archive::new_writer();
    ar.open(&path).unwrap();
    coll.prepare_for_compression(&mut ar).unwrap();
    for sm in samples {
        for ct in sm["contigs"].as_array().unwrap() {
            coll.register_sample_contig(&s(&sm["name"]), &s(&ct["name"])).unwrap();
            for (place, sg) in ct["segs"].as_array().unwrap().iter().enumerate() {
                coll.add_segment_placed(&s(&sm["name"]), &s(&ct["name"]), place, sg[0].as_u64().unwrap() as u32, sg[1].as_u64().unwrap() as u32, sg[2].as_bool().unwrap(), sg[3].as_u64().unwrap() as u32).unwrap();
            }
        }
    }
    coll.store_batch_sample_names(&mut ar).unwrap();
    let mut pos = 0usize;
    for b in c["batches"].as_array().unwrap() { let n = b.as_u64().unwrap() as usize; coll.store_contig_batch(&mut ar, pos, (pos + n).min(samples.len())).unwrap(); pos += n; }
    ar.flush_buffers().unwrap(); ar.close().unwrap();
    let mut rd = Archive::new_reader(); rd.open(&path).unwrap();
    let mut dst = CollectionV3::new();
    dst.set_config(c["segment_size"].as_u64().unwrap_or(1000) as u32, c["k"].as_u64().unwrap_or(21) as u32, None);
    dst.prepare_for_decompression(&rd).unwrap();
    dst.load_batch_sample_names(&mut rd).unwrap();
    let nb = dst.get_no_contig_batches(&rd).unwrap();
    for b in 0..nb { dst.load_contig_batch(&mut rd, b).unwrap(); }
    let _ = std::fs::remove_file(&path);
    let mut ok = true; let mut why = String::new();
    let names = dst.get_samples_list(false);
    let mut out = vec![];
    if names.len() != samples.len() { ok = false; why = "sample count".into(); }
    for (i, sm) in samples.iter().enumerate() {
        if i >= names.len() { break; }
        if names[i] != s(&sm["name"]) { ok = false; why = format!("sample {} name", i); }
        let desc = dst.get_sample_desc(&names[i]).unwrap_or_default();
        let exp = sm["contigs"].as_array().unwrap();
        if desc.len() != exp.len() { ok = false; why = format!("sample {} contig count {} != {}", i, desc.len(), exp.len()); }
        let mut cts = vec![];
        for (j, (cn, segs)) in desc.iter().enumerate() {
            cts.push(json!({"name": cn.as_bytes(), "segs": segs.iter().map(|d| json!([d.group_id, d.in_group_id, d.is_rev_comp, d.raw_length])).collect::<Vec<_>>()}));
            if j < exp.len() {
                if *cn != s(&exp[j]["name"]) { ok = false; why = format!("sample {} contig {} name", i, j); }
                let es = exp[j]["segs"].as_array().unwrap();
                if segs.len() != es.len() { ok = false; why = format!("sample {} contig {} segment count", i, j); }
                for (d, x) in segs.iter().zip(es.iter()) {
                    if d.group_id as u64 != x[0].as_u64().unwrap() || d.in_group_id as u64 != x[1].as_u64().unwrap() || d.is_rev_comp != x[2].as_bool().unwrap() || d.raw_length as u64 != x[3].as_u64().unwrap() { ok = false; why = format!("sample {} contig {} descriptor", i, j); }
                }
            }
        }
        out.push(json!({"name": names[i].as_bytes(), "contigs": cts}));
    }
    json!({ "ok": ok, "why": why, "samples": out })
}

/// C02(f): two metadata batches written by the real collection; the SECOND collection-details part is split and its
/// varint streams are decoded here with an independent prefix-varint reader (no ragc decoding code).
pub fn details_batches(c: &Value) -> Value {
    use ragc_common::{Archive, CollectionV3};
    let path = tmp_path("c02f");
    let mut coll = CollectionV3::new();
    coll.set_config(1000, 21, None);
    let mut ar = Archive::new_writer();
    ar.open(&path).unwrap();
    coll.prepare_for_compression(&mut ar).unwrap();
    for (sn, key) in [("s0", "b0"), ("s1", "b1")] {
        coll.register_sample_contig(sn, "c").unwrap();
        for (place, sg) in c[key].as_array().unwrap().iter().enumerate() {
            coll.add_segment_placed(sn, "c", place, sg[0].as_u64().unwrap() as u32, sg[1].as_u64().unwrap() as u32, sg[2].as_bool().unwrap(), sg[3].as_u64().unwrap() as u32).unwrap();
        }
    }
    coll.store_batch_sample_names(&mut ar).unwrap();
    coll.store_contig_batch(&mut ar, 0, 1).unwrap();
    coll.store_contig_batch(&mut ar, 1, 2).unwrap();
    ar.flush_buffers().unwrap(); ar.close().unwrap();
    let mut rd = Archive::new_reader(); rd.open(&path).unwrap();
    let sid = rd.get_stream_id("collection-details").unwrap();
    let (part, _) = rd.get_part_by_id(sid, 1).unwrap();
    let _ = std::fs::remove_file(&path);
    // independent prefix-varint reader (AGC collection_v3 rule)
    fn rd_var(b: &[u8], pos: &mut usize) -> u32 {
        let b0 = b[*pos] as u32;
        let (n, v) = if b0 < 0x80 { (1, b0) }
            else if b0 < 0xC0 { (2, (((b0 & 0x3F) << 8) | b[*pos + 1] as u32) + 128) }
            else if b0 < 0xE0 { (3, (((b0 & 0x1F) << 16) | ((b[*pos + 1] as u32) << 8) | b[*pos + 2] as u32) + 128 + (1 << 14)) }
            else if b0 < 0xF0 { (4, (((b0 & 0x0F) << 24) | ((b[*pos + 1] as u32) << 16) | ((b[*pos + 2] as u32) << 8) | b[*pos + 3] as u32) + 128 + (1 << 14) + (1 << 21)) }
            else { (5, (((b[*pos + 1] as u32) << 24) | ((b[*pos + 2] as u32) << 16) | ((b[*pos + 3] as u32) << 8) | b[*pos + 4] as u32).wrapping_add(128 + (1 << 14) + (1 << 21) + (1 << 28))) };
        *pos += n; v
    }
    let mut pos = 0usize;
    let mut sizes = vec![];
    for _ in 0..5 { let raw = rd_var(&part, &mut pos); let comp = rd_var(&part, &mut pos); sizes.push((raw, comp)); }
    let mut streams: Vec<Vec<u32>> = vec![];
    for (raw, comp) in sizes {
        let data = zstd::decode_all(&part[pos..pos + comp as usize]).unwrap();
        pos += comp as usize;
        assert_eq!(data.len(), raw as usize);
        let mut p = 0usize; let mut vals = vec![];
        while p < data.len() { vals.push(rd_var(&data, &mut p)); }
        streams.push(vals);
    }
    json!({ "batch1": {"counts": streams[0], "group": streams[1], "in_group": streams[2], "len": streams[3], "rev": streams[4]} })
}

/// C11: in-memory vs streaming vs first-sample splitter determination on the same reference (written as a FASTA file)
fn splitter_variants(c: &Value) -> Value {
    use ragc_core::splitters::{determine_splitters, determine_splitters_streaming, determine_splitters_streaming_first_sample};
    let k = c["k"].as_u64().unwrap() as usize;
    let seg = c["segment_size"].as_u64().unwrap() as usize;
    let contigs: Vec<Vec<u8>> = c["contigs"].as_array().unwrap().iter().map(|x| bytes(x)).collect();
    let mut text = String::new();
    for (i, ct) in contigs.iter().enumerate() {
        text.push_str(&format!(">c{}\n", i));
        for &b in ct { text.push(match b { 0 => 'A', 1 => 'C', 2 => 'G', 3 => 'T', _ => 'N' }); }
        text.push('\n');
    }
    let path = tmp_path("c11v").with_extension("fa");
    std::fs::write(&path, text).unwrap();
    let srt = |s: &ahash::AHashSet<u64>| { let mut v: Vec<u64> = s.iter().copied().collect(); v.sort(); v.iter().map(|x| json!(x)).collect::<Vec<_>>() };
    let m = determine_splitters(&contigs, k, seg);
    let a = determine_splitters_streaming(&path, k, seg);
    let b = determine_splitters_streaming_first_sample(&path, k, seg);
    let _ = std::fs::remove_file(&path);
    let (a, b) = match (a, b) { (Ok(a), Ok(b)) => (a, b), _ => return json!({"ok": false, "why": "a streaming variant failed"}) };
    let mem = json!([srt(&m.0), srt(&m.1), srt(&m.2)]);
    let st = json!([srt(&a.0), srt(&a.1), srt(&a.2)]);
    let fs = json!([srt(&b.0), srt(&b.1), srt(&b.2)]);
    json!({ "ok": mem == st && mem == fs, "mem": mem, "streaming": st, "first": fs })
}

/// C19: sample name derived from the file name, for the plain and the gzip presentation of the same one-record file
fn file_naming(c: &Value) -> Value {
    use ragc_core::contig_iterator::{ContigIterator, MultiFileIterator};
    use std::io::Write;
    let base = String::from_utf8_lossy(&bytes(&c["base"])).to_string();
    let ext = c["ext"].as_str().unwrap_or(".fa").to_string();
    let dir = std::env::temp_dir().join(format!("ragc-replay-naming-{}-{}", std::process::id(), std::time::SystemTime::now().duration_since(std::time::UNIX_EPOCH).unwrap().as_nanos()));
    std::fs::create_dir_all(&dir).unwrap();
    let plain = dir.join(format!("{}{}", base, ext));
    let gz = dir.join(format!("{}{}.gz", base, ext));
    std::fs::write(&plain, b">c1\nAC\n").unwrap();
    {
        let f = std::fs::File::create(&gz).unwrap();
        let mut enc = flate2::write::GzEncoder::new(f, flate2::Compression::default());
        enc.write_all(b">c1\nAC\n").unwrap();
        enc.finish().unwrap();
    }
    let name_of = |p: &std::path::Path| -> Option<Vec<u8>> {
        let mut it = MultiFileIterator::new(vec![p.to_path_buf()]).ok()?;
        it.next_contig().ok()?.map(|(s, _, _)| s.into_bytes())
    };
    let (a, b) = (name_of(&plain), name_of(&gz));
    let _ = std::fs::remove_dir_all(&dir);
    json!({ "plain": a, "gz": b })
}

// ---------------------------------------------------------------- whole pipeline (C01/C04/C05/C15 pipeline views)
/// Run the real StreamingQueueCompressor on the given samples `runs` times with `threads` workers and once with one worker; every
/// run must terminate (watchdog), extract to the input, and all archives must be byte-identical. With `fault_at` the output goes
/// through a file-size limit in a child process instead (see native_cli.py), not here.
pub fn pipeline(c: &Value) -> Value {
    use ragc_core::{Decompressor, DecompressorConfig, StreamingQueueCompressor, StreamingQueueConfig};
    use std::sync::mpsc;
    let threads = c["threads"].as_u64().unwrap() as usize;
    let k = c["k"].as_u64().unwrap() as usize;
    let driver = c["driver"].as_str().unwrap_or("api").to_string();
    let qcap = c["qcap"].as_u64().unwrap_or(1 << 20) as usize;
    let runs = c["runs"].as_u64().unwrap_or(20) as usize;
    let samples: Vec<(String, Vec<(String, Vec<u8>)>)> = c["samples"].as_array().unwrap().iter().map(|s| {
        (s[0].as_str().unwrap().to_string(), s[1].as_array().unwrap().iter().map(|ct| (ct[0].as_str().unwrap().to_string(), bytes(&ct[1]))).collect())
    }).collect();
    let splitters: ahash::AHashSet<u64> = c["splitters"].as_array().unwrap().iter().map(u64_of).collect();
    let cfgv = c["cfg"].clone();
    let mk_cfg = move |t: usize| {
        let mut cfg = StreamingQueueConfig { k, segment_size: 4, min_match_len: 4, num_threads: t, queue_capacity: qcap, verbosity: 0, ..StreamingQueueConfig::default() };
        if driver_is_single(&cfgv) { cfg.concatenated_genomes = true; }
        if let Some(v) = cfgv.get("pack_size").and_then(|x| x.as_u64()) { cfg.pack_size = v as usize; }
        if let Some(v) = cfgv.get("segment_size").and_then(|x| x.as_u64()) { cfg.segment_size = v as usize; }
        if let Some(v) = cfgv.get("min_match_len").and_then(|x| x.as_u64()) { cfg.min_match_len = v as usize; }
        if let Some(v) = cfgv.get("concatenated_genomes").and_then(|x| x.as_bool()) { cfg.concatenated_genomes = v; }
        cfg
    };
    fn driver_is_single(cfgv: &Value) -> bool { cfgv.get("__single").and_then(|x| x.as_bool()).unwrap_or(false) }
    let paces: Vec<u64> = c.get("pace_ms").and_then(|x| x.as_array()).map(|a| a.iter().map(|v| v.as_u64().unwrap_or(0)).collect()).unwrap_or_else(|| vec![0]);
    let one = |t: usize, run: usize| -> Result<Vec<u8>, String> {
        // producer pacing: the same inputs and parameters pushed at a different speed (0 = as fast as possible)
        let pace = paces[run % paces.len()];
        let path = tmp_path(&format!("pipe{}-{}", t, run));
        let (tx, rx) = mpsc::channel();
        let (samples2, splitters2, path2, driver2) = (samples.clone(), splitters.clone(), path.clone(), driver.clone());
        let mut cfg = mk_cfg(t);
        if driver == "single" { cfg.concatenated_genomes = true; }
        std::thread::spawn(move || {
            let r = (|| -> anyhow::Result<()> {
                let mut comp = StreamingQueueCompressor::with_splitters(&path2, cfg, splitters2)?;
                for (si, (sn, contigs)) in samples2.iter().enumerate() {
                    if si == 1 && driver2 == "single" { comp.drain()?; }
                    for (cn, d) in contigs { comp.push(sn.clone(), cn.clone(), d.clone())?; if pace > 0 { std::thread::sleep(std::time::Duration::from_millis(pace)); } }
                    if si == 0 && driver2 == "multi" { comp.drain()?; comp.sync_and_flush("AAA#0_REF")?; }
                }
                comp.finalize()
            })();
            let _ = tx.send(r.map_err(|e| format!("{:#}", e)));
        });
        match rx.recv_timeout(std::time::Duration::from_secs(c["watchdog_s"].as_u64().unwrap_or(60))) {
            Err(_) => return Err("timeout".into()),
            Ok(Err(e)) => return Err(format!("create failed: {}", e)),
            Ok(Ok(())) => {}
        }
        let data = std::fs::read(&path).map_err(|e| e.to_string())?;
        let mut dec = Decompressor::open(path.to_str().unwrap(), DecompressorConfig { verbosity: 0 }).map_err(|e| format!("open failed: {:#}", e))?;
        let names = dec.list_samples();
        let mut exp: Vec<String> = vec![];
        for (sn, _) in samples.iter() { if !exp.contains(sn) { exp.push(sn.clone()); } }
        if names != exp { let _ = std::fs::remove_file(&path); return Err(format!("sample list {:?} != {:?}", names, exp)); }
        for sn in exp.iter() {
            let got = dec.get_sample(sn).map_err(|e| format!("extract failed: {:#}", e))?;
            let want: Vec<(String, Vec<u8>)> = samples.iter().filter(|(s, _)| s == sn).flat_map(|(_, cs)| cs.clone()).collect();
            if got != want { let _ = std::fs::remove_file(&path); return Err(format!("round trip differs for {}", sn)); }
        }
        // the same archive through the independent format-rule reader (replay/src/indep.rs)
        if c.get("indep").and_then(|x| x.as_bool()).unwrap_or(true) {
            let r = (|| -> Result<(), String> {
                let a = crate::indep::indep::Agc::open(path.to_str().unwrap())?;
                if a.pack_card != 50 || a.k as usize != k { return Err(format!("params stream says k={}, min_match={}, pack_cardinality={} (packs hold 50 entries, k={})", a.k, a.min_match, a.pack_card, k)); }
                let got: Vec<String> = a.samples.iter().map(|s| s.0.clone()).collect();
                let mut exp: Vec<String> = vec![];
                for (sn, _) in samples.iter() { if !exp.contains(sn) { exp.push(sn.clone()); } }
                if got != exp { return Err(format!("sample list {:?} != {:?}", got, exp)); }
                for (sn, contigs) in a.samples.iter() {
                    let want: Vec<(String, Vec<u8>)> = samples.iter().filter(|(s, _)| s == sn).flat_map(|(_, cs)| cs.clone()).collect();
                    if contigs.len() != want.len() { return Err(format!("sample {}: {} contigs, {} pushed", sn, contigs.len(), want.len())); }
                    for ((cn, segs), (wn, wd)) in contigs.iter().zip(want.iter()) {
                        if cn != wn { return Err(format!("sample {}: contig name {:?} != {:?}", sn, cn, wn)); }
                        let d = a.contig(segs)?;
                        if &d != wd { return Err(format!("sample {} contig {}: decoded bases differ from the input", sn, cn)); }
                    }
                }
                Ok(())
            })();
            if let Err(e) = r { let _ = std::fs::remove_file(&path); return Err(format!("independent reader: {}", e)); }
        }
        let _ = std::fs::remove_file(&path);
        Ok(data)
    };
    let reference = match one(1, 0) { Ok(d) => d, Err(e) => return json!({"ok": false, "why": format!("1 worker: {}", e), "timeout": e == "timeout"}) };
    if let Some(fr) = c.get("fault_fractions").and_then(|x| x.as_array()) {
        // write-fault view: the first failing write at several offsets of the real archive (file-size limit, EFBIG)
        extern "C" { fn setrlimit(resource: i32, rlim: *const [u64; 2]) -> i32; fn signal(signum: i32, handler: usize) -> usize; }
        let full = reference.len() as u64;
        let mut offsets: Vec<u64> = fr.iter().map(|f| ((f.as_f64().unwrap() * full as f64) as u64).min(full - 1)).collect();
        for back in [1u64, 7, 8, 9, 16, 40] { if full > back { offsets.push(full - back); } }
        offsets.sort(); offsets.dedup();
        unsafe { signal(25, 1); }
        let mut swallowed = vec![];
        for &phi in offsets.iter() {
            let path = tmp_path(&format!("pipef{}", phi));
            let lim = [phi, u64::MAX];
            unsafe { setrlimit(1, &lim); }
            let (samples2, splitters2, path2, driver2) = (samples.clone(), splitters.clone(), path.clone(), driver.clone());
            let mut cfg = mk_cfg(threads);
            if driver == "single" { cfg.concatenated_genomes = true; }
            let r = (|| -> anyhow::Result<()> {
                let mut comp = StreamingQueueCompressor::with_splitters(&path2, cfg, splitters2)?;
                for (si, (sn, contigs)) in samples2.iter().enumerate() {
                    if si == 1 && driver2 == "single" { comp.drain()?; }
                    for (cn, d) in contigs { comp.push(sn.clone(), cn.clone(), d.clone())?; }
                    if si == 0 && driver2 == "multi" { comp.drain()?; comp.sync_and_flush("AAA#0_REF")?; }
                }
                comp.finalize()
            })();
            let inf = [u64::MAX, u64::MAX];
            unsafe { setrlimit(1, &inf); }
            let size = std::fs::metadata(&path).map(|m| m.len()).unwrap_or(0);
            let _ = std::fs::remove_file(&path);
            if r.is_ok() && size < full { swallowed.push(json!({"phi": phi, "size": size})); }
        }
        return json!({ "ok": swallowed.is_empty(), "full_size": full, "offsets": offsets, "swallowed": swallowed,
                       "why": if swallowed.is_empty() { String::new() } else { "finalize returned Ok although a write failed and the archive is truncated".to_string() } });
    }
    let mut distinct: Vec<Vec<u8>> = vec![reference.clone()];
    for r in 0..runs {
        match one(threads, r + 1) {
            Ok(d) => { if !distinct.contains(&d) { distinct.push(d); } }
            Err(e) => return json!({"ok": false, "why": format!("{} workers, run {}: {}", threads, r, e), "timeout": e == "timeout"}),
        }
    }
    json!({ "ok": distinct.len() == 1, "distinct_archives": distinct.len(), "sizes": distinct.iter().map(|d| d.len()).collect::<Vec<_>>(),
            "why": if distinct.len() == 1 { String::new() } else { format!("{} distinct archives over {} runs with {} worker(s) + 1 run with one worker", distinct.len(), runs, threads) } })
}

/// Translator validation of the pipeline instances: one real run (given driver / thread count / config); the full descriptor table
/// (group id, in-group id, orientation, raw length of every segment of every contig) and the extracted contigs are returned, to be
/// compared with what the engine's run of the same real code produced.
pub fn pipeline_dump(c: &Value) -> Value {
    use ragc_core::{Decompressor, DecompressorConfig, StreamingQueueCompressor, StreamingQueueConfig};
    let threads = c["threads"].as_u64().unwrap() as usize;
    let k = c["k"].as_u64().unwrap() as usize;
    let driver = c["driver"].as_str().unwrap_or("api").to_string();
    let samples: Vec<(String, Vec<(String, Vec<u8>)>)> = c["samples"].as_array().unwrap().iter().map(|s| {
        (s[0].as_str().unwrap().to_string(), s[1].as_array().unwrap().iter().map(|ct| (ct[0].as_str().unwrap().to_string(), bytes(&ct[1]))).collect())
    }).collect();
    let splitters: ahash::AHashSet<u64> = c["splitters"].as_array().unwrap().iter().map(u64_of).collect();
    let mut cfg = StreamingQueueConfig { k, segment_size: 4, min_match_len: 4, num_threads: threads, queue_capacity: c["qcap"].as_u64().unwrap_or(1 << 20) as usize, verbosity: 0, ..StreamingQueueConfig::default() };
    if let Some(v) = c["cfg"].get("pack_size").and_then(|x| x.as_u64()) { cfg.pack_size = v as usize; }
    if driver == "single" { cfg.concatenated_genomes = true; }
    let pace = c.get("pace").and_then(|x| x.as_u64()).unwrap_or(0);
    let path = tmp_path("pipedump");
    let r = (|| -> anyhow::Result<()> {
        let mut comp = StreamingQueueCompressor::with_splitters(&path, cfg, splitters)?;
        for (si, (sn, contigs)) in samples.iter().enumerate() {
            if si == 1 && driver == "single" { comp.drain()?; }
            for (cn, d) in contigs { comp.push(sn.clone(), cn.clone(), d.clone())?; if pace > 0 { std::thread::sleep(std::time::Duration::from_millis(pace)); } }
            if si == 0 && driver == "multi" { comp.drain()?; comp.sync_and_flush("AAA#0_REF")?; }
        }
        comp.finalize()
    })();
    if let Err(e) = r { return json!({"error": format!("{:#}", e)}); }
    let mut dec = Decompressor::open(path.to_str().unwrap(), DecompressorConfig { verbosity: 0 }).unwrap();
    let table: Vec<Value> = dec.get_all_segments().unwrap().into_iter().map(|(s, ct, segs)| json!([s, ct, segs.iter().map(|d| json!([d.group_id, d.in_group_id, d.is_rev_comp, d.raw_length])).collect::<Vec<_>>()])).collect();
    let mut out = vec![];
    for sn in dec.list_samples() { out.push(json!([sn.clone(), dec.get_sample(&sn).unwrap().into_iter().map(|(n, d)| json!([n, d])).collect::<Vec<_>>()])); }
    let _ = std::fs::remove_file(&path);
    json!({ "segments": table, "samples": out })
}

/// C08 segment level: a real archive (multi-file driving, one worker), then the given history of reader operations on ONE handle,
/// each answer compared with the same query on a fresh handle; get_reference_segment of an existing LZ group must succeed.
pub fn seg_history(c: &Value) -> Value {
    use ragc_core::{Decompressor, DecompressorConfig, StreamingQueueCompressor, StreamingQueueConfig};
    let samples: Vec<(String, Vec<(String, Vec<u8>)>)> = c["samples"].as_array().unwrap().iter().map(|s| {
        (s[0].as_str().unwrap().to_string(), s[1].as_array().unwrap().iter().map(|ct| (ct[0].as_str().unwrap().to_string(), bytes(&ct[1]))).collect())
    }).collect();
    let splitters: ahash::AHashSet<u64> = c["splitters"].as_array().unwrap().iter().map(u64_of).collect();
    let path = tmp_path("seghist");
    let cfg = StreamingQueueConfig { k: 3, segment_size: 4, min_match_len: 4, num_threads: 1, queue_capacity: 1 << 20, verbosity: 0, ..StreamingQueueConfig::default() };
    {
        let mut comp = StreamingQueueCompressor::with_splitters(&path, cfg, splitters).unwrap();
        for (si, (sn, contigs)) in samples.iter().enumerate() {
            for (cn, d) in contigs { comp.push(sn.clone(), cn.clone(), d.clone()).unwrap(); }
            if si == 0 { comp.drain().unwrap(); comp.sync_and_flush("AAA#0_REF").unwrap(); }
        }
        comp.finalize().unwrap();
    }
    let open = || Decompressor::open(path.to_str().unwrap(), DecompressorConfig { verbosity: 0 }).unwrap();
    let mut groups: Vec<u32> = vec![];
    for (_, _, segs) in open().get_all_segments().unwrap() { for d in segs { if !groups.contains(&d.group_id) { groups.push(d.group_id); } } }
    let query = |h: &mut Decompressor, op: &str, sample: &str, contig: &str, gid: u32| -> String {
        match op {
            "get_contig" => format!("{:?}", h.get_contig(sample, contig).map_err(|_| ())),
            "get_sample" => format!("{:?}", h.get_sample(sample).map_err(|_| ())),
            "get_contig_range" => format!("{:?}", h.get_contig_range(sample, contig, 2, 9).map_err(|_| ())),
            "get_contig_length" => format!("{:?}", h.get_contig_length(sample, contig).map_err(|_| ())),
            "get_reference_segment" => format!("{:?}", h.get_reference_segment(gid).map_err(|_| ())),
            "list_contigs" => format!("{:?}", h.list_contigs(sample).map_err(|_| ())),
            _ => format!("{:?}", h.get_all_segments().map(|v| v.len()).map_err(|_| ())),
        }
    };
    let first_contig = |sn: &str| -> String { samples.iter().find(|(s, _)| s == sn).map(|(_, cs)| cs[0].0.clone()).unwrap_or_else(|| "nope".to_string()) };
    let mut h = open();
    let mut ok = true; let mut why = String::new();
    for step in c["history"].as_array().unwrap() {
        let op = step[0].as_str().unwrap(); let sample = step[1].as_str().unwrap(); let gid = step[2].as_u64().unwrap_or(0) as u32;
        let contig = first_contig(sample);
        let a = query(&mut h, op, sample, &contig, gid);
        let b = query(&mut open(), op, sample, &contig, gid);
        if a != b { ok = false; why = format!("{}({}) on the used handle gives {} but {} on a fresh handle", op, sample, &a[..a.len().min(60)], &b[..b.len().min(60)]); }
        if op == "get_reference_segment" && gid >= 16 && groups.contains(&gid) && (a.starts_with("Err") || b.starts_with("Err")) { ok = false; why = format!("get_reference_segment({}) fails although the group exists (used handle: {}, fresh handle: {})", gid, &a[..a.len().min(20)], &b[..b.len().min(20)]); }
    }
    let _ = std::fs::remove_file(&path);
    json!({ "ok": ok, "why": why, "groups": groups })
}

// ---------------------------------------------------------------- C06 / C05 bounded priority queue
pub fn queue_seq(c: &Value) -> Value {
    use ragc_core::memory_bounded_queue::MemoryBoundedQueue;
    let cap = c["cap"].as_u64().unwrap() as usize;
    let q: MemoryBoundedQueue<u64> = MemoryBoundedQueue::new(cap);
    let mut model: Vec<(u64, usize)> = vec![];
    let mut closed = false; let mut ok = true; let mut why = String::new(); let mut nid = 0u64;
    for op in c["ops"].as_array().unwrap() {
        let o = op.as_array().unwrap();
        let name = o[0].as_str().unwrap();
        let total: usize = model.iter().map(|x| x.1).sum();
        match name {
            "push" | "try_push" => {
                let item = o[1].as_u64().unwrap() * 8 + nid; nid += 1; let size = o[2].as_u64().unwrap() as usize;
                let fits = total + size <= cap;
                if name == "push" && !fits && !closed { return json!({"ok": true, "skipped": "would block"}); }
                let accepted = if name == "push" { q.push(item, size).is_ok() } else { q.try_push(item, size).is_ok() };
                if closed { if accepted { ok = false; why = "accepted after close".into(); } }
                else if fits { if !accepted { ok = false; why = "refused fitting item".into(); } else { model.push((item, size)); } }
                else if accepted { ok = false; why = "accepted beyond capacity".into(); }
            }
            "pull" | "try_pull" => {
                if name == "pull" && model.is_empty() && !closed { return json!({"ok": true, "skipped": "would block"}); }
                let r = if name == "pull" { q.pull() } else { q.try_pull() };
                match r {
                    None => if !model.is_empty() { ok = false; why = "None with items queued".into(); },
                    Some(x) => match model.iter().position(|m| m.0 == x) {
                        None => { ok = false; why = "phantom item".into(); }
                        Some(i) => { if model.iter().any(|m| m.0 > x) { ok = false; why = "priority order".into(); } model.remove(i); }
                    },
                }
            }
            "close" => { q.close(); closed = true; }
            _ => { if q.len() != model.len() || q.current_size() != total || q.current_size() > cap || q.is_closed() != closed { ok = false; why = "accounting".into(); } }
        }
    }
    json!({ "ok": ok, "why": why })
}

/// Stress replay of a concurrent configuration on the real queue with real threads: producers push their items (sizes given),
/// consumers pull until None, main closes after the producers; a watchdog reports a hang. Many trials with random delays.
pub fn queue_conc(c: &Value) -> Value {
    use ragc_core::memory_bounded_queue::MemoryBoundedQueue;
    use std::sync::{Arc, Mutex, atomic::{AtomicUsize, Ordering}};
    use std::time::{Duration, Instant};
    let cap = c["cap"].as_u64().unwrap() as usize;
    let sizes: Vec<Vec<usize>> = c["sizes"].as_array().unwrap().iter().map(|p| p.as_array().unwrap().iter().map(|x| x.as_u64().unwrap() as usize).collect()).collect();
    let ncons = c["consumers"].as_u64().unwrap() as usize;
    let trials = c["trials"].as_u64().unwrap_or(150);
    let fits = sizes.iter().flatten().all(|&s| s <= cap);
    let mut seed = 0x9E3779B97F4A7C15u64;
    let mut rnd = move || { seed ^= seed << 13; seed ^= seed >> 7; seed ^= seed << 17; seed };
    for trial in 0..trials {
        let q: MemoryBoundedQueue<u64> = MemoryBoundedQueue::new(cap);
        let pulled = Arc::new(Mutex::new(Vec::<u64>::new()));
        let done = Arc::new(AtomicUsize::new(0));
        let bad = Arc::new(Mutex::new(String::new()));
        let mut hs = vec![]; let mut ph = vec![];
        for ci in 0..ncons {
            let (q, pulled, done) = (q.clone(), pulled.clone(), done.clone()); let d = rnd() % 300;
            hs.push(std::thread::spawn(move || { std::thread::sleep(Duration::from_micros(d * (ci as u64 + 1) % 500)); while let Some(x) = q.pull() { pulled.lock().unwrap().push(x); if d % 3 == 0 { std::thread::yield_now(); } } done.fetch_add(1, Ordering::SeqCst); }));
        }
        let npush = Arc::new(AtomicUsize::new(0));
        for (pi, items) in sizes.iter().enumerate() {
            let (q, done, items, bad, npush) = (q.clone(), done.clone(), items.clone(), bad.clone(), npush.clone()); let d = rnd() % 300;
            ph.push(std::thread::spawn(move || { std::thread::sleep(Duration::from_micros(d)); for (k, &s) in items.iter().enumerate() {
                match q.push((3 - k as u64) * 8 + pi as u64, s) { Ok(()) => { npush.fetch_add(1, Ordering::SeqCst); if fits && q.current_size() > cap { *bad.lock().unwrap() = "capacity exceeded".into(); } } Err(_) => { if !q.is_closed() { *bad.lock().unwrap() = "push refused before close".into(); } } } }
                done.fetch_add(1, Ordering::SeqCst); }));
        }
        let t0 = Instant::now();
        let early = c["early_close"].as_bool().unwrap_or(false);
        if early {
            // close at an arbitrary moment: producers may be blocked in push and must be released with Err(Closed)
            std::thread::sleep(Duration::from_micros(rnd() % 3000));
            q.close();
            loop { if ph.iter().all(|h| h.is_finished()) { break; } if t0.elapsed() > Duration::from_millis(1500) { return json!({"ok": false, "why": "hang: a producer is still blocked in push after close", "trial": trial}); } std::thread::sleep(Duration::from_micros(200)); }
        } else {
            loop { if ph.iter().all(|h| h.is_finished()) { break; } if t0.elapsed() > Duration::from_millis(1500) { return json!({"ok": false, "why": "hang: a producer is still blocked in push", "trial": trial}); } std::thread::sleep(Duration::from_micros(200)); }
            q.close();
        }
        loop { if hs.iter().all(|h| h.is_finished()) { break; } if t0.elapsed() > Duration::from_millis(3000) { return json!({"ok": false, "why": "hang: a consumer is still blocked after close", "trial": trial}); } std::thread::sleep(Duration::from_micros(200)); }
        let b = bad.lock().unwrap().clone();
        if !b.is_empty() { return json!({"ok": false, "why": b, "trial": trial}); }
        let mut got = pulled.lock().unwrap().clone(); got.sort();
        let mut dedup = got.clone(); dedup.dedup();
        if ncons == 0 {
            // nothing drains the queue: after close every accepted item must still be there, and none may have been accepted after close
            if q.len() != npush.load(Ordering::SeqCst) { return json!({"ok": false, "why": "queue length differs from accepted pushes", "trial": trial}); }
            if fits && q.current_size() > cap { return json!({"ok": false, "why": "item queued after close beyond the capacity", "trial": trial}); }
            continue;
        }
        if got.len() != npush.load(Ordering::SeqCst) || dedup.len() != got.len() { return json!({"ok": false, "why": format!("pushed {} pulled {:?}", npush.load(Ordering::SeqCst), got), "trial": trial}); }
    }
    json!({ "ok": true, "trials": trials })
}

// ---------------------------------------------------------------- C01 kernels
#[cfg(ekg_ragc_verif)]
pub fn reassemble(c: &Value) -> Value {
    use ragc_core::segment::split_at_splitters_with_size;
    let contig = bytes(&c["contig"]);
    let k = c["k"].as_u64().unwrap() as usize;
    let spl: ahash::AHashSet<u64> = c["splitters"].as_array().unwrap().iter().map(|x| x.as_str().unwrap().parse::<u64>().unwrap()).collect();
    let flags: Vec<bool> = c["flags"].as_array().unwrap().iter().map(|x| x.as_bool().unwrap()).collect();
    let segs = split_at_splitters_with_size(&contig, &spl, k, 1000);
    let data_rc = |d: &[u8]| -> Vec<u8> { d.iter().rev().map(|&b| match b { 0 => 3, 1 => 2, 2 => 1, 3 => 0, _ => b }).collect() };
    let mut stored = vec![];
    for (i, s) in segs.iter().enumerate() {
        let f = flags.get(i).copied().unwrap_or(false);
        let d = if !f { s.data.clone() } else if c["writer"].as_str().unwrap().starts_with("reverse_complement_sequence") { ragc_core::agc_compressor::verif_hooks::reverse_complement_sequence(&s.data) } else { data_rc(&s.data) };
        stored.push((d, f));
    }
    let mut d = reader_over_segments(k as u32, &stored);
    let out = d.get_contig("s", "s");
    match out { Ok(v) => json!({"ok": v == contig, "contig": v}), Err(e) => json!({"ok": false, "why": format!("{}", e)}) }
}

#[cfg(ekg_ragc_verif)]
pub fn split_at(c: &Value) -> Value {
    let s = bytes(&c["s"]); let p = c["p"].as_u64().unwrap() as usize; let k = c["k"].as_u64().unwrap() as usize;
    let (l, r) = ragc_core::agc_compressor::verif_hooks::split_segment_at_position(&s, p, k);
    let ok = l.len() >= k && r.len() >= k && [&l[..], &r[k..]].concat() == s;
    json!({"ok": ok, "left": l, "right": r})
}

// ---------------------------------------------------------------- C18 overflow sites
pub fn lz_estimate(c: &Value) -> Value {
    use ragc_core::lz_diff::LZDiff;
    let r = bytes(&c["ref"]); let t = bytes(&c["tgt"]); let mm = c["mm"].as_u64().unwrap() as u32;
    let mut lz = LZDiff::new(mm);
    lz.prepare(&r);
    let est = lz.estimate(&t, u32::MAX);
    let a = lz.get_coding_cost_vector(&t, true); let b = lz.get_coding_cost_vector(&t, false);
    json!({ "est": est, "cv": [a, b] })
}

pub fn push_priority(c: &Value) -> Value {
    use ragc_core::{StreamingQueueCompressor, StreamingQueueConfig};
    let path = tmp_path("c18");
    let mut cfg = StreamingQueueConfig::default();
    cfg.num_threads = c["threads"].as_u64().unwrap_or(1) as usize;
    cfg.verbosity = 0; cfg.pack_size = 2; cfg.concatenated_genomes = true;
    let mut spl = ahash::AHashSet::new(); spl.insert(12345u64);
    let mut comp = StreamingQueueCompressor::with_splitters(&path, cfg, spl).unwrap();
    let earlier = c["earlier_samples"].as_u64().unwrap_or(0);
    let seq: Vec<u8> = (0..200).map(|i| (i % 4) as u8).collect();
    for s in 0..earlier.min(3) { comp.push(format!("e{}#1", s), format!("e{}#1#c", s), seq.clone()).unwrap(); }
    for i in 0..3 { comp.push("s1#1".to_string(), format!("s1#1#c{}", i), seq.clone()).unwrap(); }
    let r = comp.finalize();
    let _ = std::fs::remove_file(&path);
    json!({ "ok": r.is_ok() })
}

// ---------------------------------------------------------------- C08 reader history
pub fn reader_history(c: &Value) -> Value {
    use ragc_common::{Archive, CollectionV3};
    use ragc_core::{Decompressor, DecompressorConfig};
    let path = tmp_path("c08");
    let names = ["s0", "s1", "s2"];
    {
        let mut coll = CollectionV3::new();
        coll.set_config(1000, 3, None);
        let mut ar = Archive::new_writer(); ar.open(&path).unwrap();
        let pid = ar.register_stream("params");
        let mut p = vec![]; for v in [3u32, 20, 50, 1000] { p.extend_from_slice(&v.to_le_bytes()); }
        ar.add_part_buffered(pid, p, 0);
        coll.prepare_for_compression(&mut ar).unwrap();
        for (i, n) in names.iter().enumerate() {
            let cn = format!("c{}", i);
            coll.register_sample_contig(n, &cn).unwrap();
            coll.add_segment_placed(n, &cn, 0, 16 + i as u32, 0, false, c["lens"][i].as_u64().unwrap() as u32).unwrap();
        }
        coll.store_batch_sample_names(&mut ar).unwrap();
        let mut pos = 0usize;
        for b in c["batches"].as_array().unwrap() { let n = b.as_u64().unwrap() as usize; coll.store_contig_batch(&mut ar, pos, pos + n).unwrap(); pos += n; }
        ar.flush_buffers().unwrap(); ar.close().unwrap();
    }
    // metadata-only queries (segment payloads are not in this archive): compare with a fresh handle after every step
    let q = |d: &mut Decompressor, op: &str, s: &str| -> String {
        let cn = match s { "s0" => "c0", "s2" => "c2", _ => "nope" };
        match op {
            "list_samples" => format!("{:?}", d.list_samples()),
            "list_contigs" => format!("{:?}", d.list_contigs(s).map_err(|_| ())),
            "get_contig_length" => format!("{:?}", d.get_contig_length(s, cn).map_err(|_| ())),
            "get_contig_segments_desc" => format!("{:?}", d.get_contig_segments_desc(s, cn).map_err(|_| ())),
            "get_all_segments" => format!("{:?}", d.get_all_segments().map_err(|_| ())),
            "get_group_statistics" => format!("{:?}", d.get_group_statistics().map_err(|_| ())),
            "get_contig" => format!("{:?}", d.get_contig(s, cn).is_err()),
            "get_sample" => format!("{:?}", d.get_sample(s).is_err()),
            "get_reference_segment" => format!("{:?}", d.get_reference_segment(match s { "s0" => 16, "s2" => 3, _ => 9999 }).map_err(|_| ())),
            _ => String::new(),
        }
    };
    let p = path.to_str().unwrap().to_string();
    let mut h = Decompressor::open(&p, DecompressorConfig { verbosity: 0 }).unwrap();
    let mut ok = true; let mut why = String::new();
    for step in c["history"].as_array().unwrap() {
        let op = step[0].as_str().unwrap(); let s = step[1].as_str().unwrap();
        let got = q(&mut h, op, s);
        let mut f = Decompressor::open(&p, DecompressorConfig { verbosity: 0 }).unwrap();
        let fresh = q(&mut f, op, s);
        if got != fresh { ok = false; why = format!("{}({}) -> {} vs fresh {}", op, s, got, fresh); break; }
    }
    let _ = std::fs::remove_file(&path);
    json!({ "ok": ok, "why": why })
}

// ---------------------------------------------------------------- C11 splitters
pub fn splitters(c: &Value) -> Value {
    let k = c["k"].as_u64().unwrap() as usize; let seg = c["segment_size"].as_u64().unwrap() as usize;
    let contigs: Vec<Vec<u8>> = c["contigs"].as_array().unwrap().iter().map(|x| bytes(x)).collect();
    let (s, cand, dup) = ragc_core::splitters::determine_splitters(&contigs, k, seg);
    // reference: multiplicities of canonical k-mers
    let mut cnt: std::collections::HashMap<u64, usize> = Default::default();
    for ct in &contigs {
        let mut run = 0usize;
        for p in 0..ct.len() {
            if ct[p] > 3 { run = 0; continue; }
            run += 1;
            if run >= k {
                let w = &ct[p + 1 - k..p + 1];
                let mut d = 0u64; let mut r = 0u64;
                for j in 0..k { d |= (w[j] as u64) << (62 - 2 * j); r |= ((3 - w[k - 1 - j]) as u64) << (62 - 2 * j); }
                *cnt.entry(d.min(r)).or_default() += 1;
            }
        }
    }
    let mut ok = true;
    for (v, n) in &cnt { if (*n == 1) != cand.contains(v) || (*n > 1) != dup.contains(v) { ok = false; } }
    for v in cand.iter().chain(dup.iter()) { if !cnt.contains_key(v) { ok = false; } }
    for v in s.iter() { if !cand.contains(v) { ok = false; } }
    // selection rule restated: pick a candidate only after `seg` bases since the last pick (restart after a pick and at
    // non-ACGT codes), plus the right-most candidate since the last restart at the contig end
    let mut exp: std::collections::HashSet<u64> = Default::default();
    for ct in &contigs {
        let (mut cur, mut run) = (seg, 0usize); let mut recent: Vec<u64> = vec![];
        for p in 0..ct.len() {
            if ct[p] > 3 { run = 0; recent.clear(); }
            else {
                run += 1;
                if run >= k {
                    let w = &ct[p + 1 - k..p + 1];
                    let mut d = 0u64; let mut r = 0u64;
                    for j in 0..k { d |= (w[j] as u64) << (62 - 2 * j); r |= ((3 - w[k - 1 - j]) as u64) << (62 - 2 * j); }
                    let v = d.min(r);
                    recent.push(v);
                    if cur >= seg && cand.contains(&v) { exp.insert(v); cur = 0; run = 0; recent.clear(); }
                }
            }
            cur += 1;
        }
        for v in recent.iter().rev() { if cand.contains(v) { exp.insert(*v); break; } }
    }
    let got: std::collections::HashSet<u64> = s.iter().copied().collect();
    if got != exp { ok = false; }
    let mut sv: Vec<u64> = s.into_iter().collect(); sv.sort();
    let mut cv: Vec<u64> = cand.into_iter().collect(); cv.sort();
    let mut dv: Vec<u64> = dup.into_iter().collect(); dv.sort();
    json!({ "splitters": sv, "singletons": cv, "duplicates": dv, "ok": ok })
}

pub fn refseg_roundtrip(c: &Value) -> Value {
    use ragc_core::segment_compression::{compress_reference_segment, compress_segment_configured, decompress_segment_with_marker};
    let d = bytes(&c["d"]);
    let (comp, marker) = compress_reference_segment(&d).unwrap();
    let back = decompress_segment_with_marker(&comp, marker).unwrap();
    let c2 = compress_segment_configured(&d, 17).unwrap();
    let b2 = decompress_segment_with_marker(&c2, 0).unwrap();
    json!({ "marker": marker, "ok": back == d && (d.is_empty() || b2 == d) && marker <= 1 })
}

// ---------------------------------------------------------------- C02(d) pack addressing
#[cfg(ekg_ragc_verif)]
pub fn pack_step(c: &Value) -> Value {
    use ragc_core::segment_compression::decompress_segment_with_marker;
    let raw = c["raw"].as_bool().unwrap();
    let p = c["P"].as_u64().unwrap() as u32;
    let gid = if raw { 3 } else { 20 };
    let first_raw_pack = raw && p == 0;
    let cap = if first_raw_pack { 49 } else { 50 };
    let npend = cap - 1;
    let first_id: u32 = if raw { if p == 0 { 1 } else { 50 } } else { p * 50 + 1 };
    // compressible, pairwise distinct pending deltas (so that real ZSTD stores the pack compressed)
    let pending: Vec<Vec<u8>> = (0..npend).map(|j| { let mut v = vec![1u8; 30]; v.push(2 + (j as u8 % 2)); v.push(j as u8 / 2 + 4); v }).collect();
    let news: Vec<Vec<u8>> = c["segs"].as_array().unwrap().iter().map(|x| bytes(x)).collect();
    let (parts, regs, state) = ragc_core::agc_compressor::verif_hooks::flush_pack_step_state(gid, p, pending, first_id, news).unwrap();
    let mut ok = parts.len() == 1; let mut why = String::new();
    if let Some((_sid, data, meta)) = parts.first() {
        let unpacked = if *meta == 0 { data.clone() } else { let mut d = data.clone(); let m = d.pop().unwrap(); decompress_segment_with_marker(&d, m).unwrap() };
        if *meta != 0 && *meta as usize != unpacked.len() { ok = false; why = format!("metadata {} != unpacked size {}", meta, unpacked.len()); }
        let nsep = unpacked.iter().filter(|&&b| b == 0xFF).count();
        if nsep != 50 { ok = false; why = format!("{} entries in a full pack", nsep); }
        if first_raw_pack && !(unpacked.len() >= 2 && unpacked[0] == 0x7f && unpacked[1] == 0xFF) { ok = false; why = "placeholder missing".into(); }
    } else { why = format!("{} parts", parts.len()); }
    json!({ "ok": ok, "why": why, "registrations": regs,
            "state": {"pending_ids": state.0, "pending": state.1, "segments_written": state.2, "placeholder": state.3, "segments_left": state.4} })
}
