use crate::kmer_checks;
use serde_json::{json, Value};

pub fn bytes(v: &Value) -> Vec<u8> {
    v.as_array().expect("array").iter().map(|x| x.as_u64().expect("u8") as u8).collect()
}

pub fn dispatch(cmd: &str, c: &Value) -> Value {
    match cmd {
        "kmer_slide" => kmer_slide(c),
        "kmer_inv" => kmer_inv(c),
        "tuple_roundtrip" => tuple_roundtrip(c),
        "lz_roundtrip" => lz_roundtrip(c),
        _ => json!({"error": format!("unknown command {}", cmd)}),
    }
}

macro_rules! by_k {
    ($k:expr, $f:ident, $arg:expr; $($kk:literal $nn:literal),*) => {
        match $k { $($kk => $f::<$kk, $nn>($arg),)* _ => panic!("k out of range") }
    };
}

fn slide_k<const K: usize, const N: usize>(seq: &[u8]) -> u32 {
    let mut a = [0u8; N];
    a.copy_from_slice(&seq[..N]);
    kmer_checks::slide_checks::<K, N>(&a)
}
fn inv_k<const K: usize, const N: usize>(w: u64) -> u32 {
    kmer_checks::involution_checks::<K>(w)
}

fn kmer_slide(c: &Value) -> Value {
    let k = c["k"].as_u64().unwrap() as usize;
    let seq = bytes(&c["seq"]);
    let code = by_k!(k, slide_k, &seq; 1 3, 2 4, 3 5, 4 6, 5 7, 6 8, 7 9, 8 10, 9 11, 10 12, 11 13, 12 14,
        13 15, 14 16, 15 17, 16 18, 17 19, 18 20, 19 21, 20 22, 21 23, 22 24, 23 25, 24 26, 25 27, 26 28,
        27 29, 28 30, 29 31, 30 32, 31 33, 32 34);
    json!({ "code": code })
}

fn kmer_inv(c: &Value) -> Value {
    let k = c["k"].as_u64().unwrap() as usize;
    let w = c["w"].as_u64().unwrap();
    let code = by_k!(k, inv_k, w; 1 3, 2 4, 3 5, 4 6, 5 7, 6 8, 7 9, 8 10, 9 11, 10 12, 11 13, 12 14,
        13 15, 14 16, 15 17, 16 18, 17 19, 18 20, 19 21, 20 22, 21 23, 22 24, 23 25, 24 26, 25 27, 26 28,
        27 29, 28 30, 29 31, 30 32, 31 33, 32 34);
    json!({ "code": code })
}

// ---------------------------------------------------------------- C12 tuple packing
pub fn tuple_roundtrip(c: &Value) -> Value {
    use ragc_core::tuple_packing::{bytes_to_tuples, tuples_to_bytes};
    let b = bytes(&c["b"]);
    let packed = bytes_to_tuples(&b);
    let unpacked = tuples_to_bytes(&packed);
    json!({ "input": b, "packed": packed, "unpacked": unpacked })
}

// ---------------------------------------------------------------- C09 LZ diff
pub fn lz_roundtrip(c: &Value) -> Value {
    use ragc_core::lz_diff::LZDiff;
    let r = bytes(&c["ref"]);
    let t = bytes(&c["tgt"]);
    let mm = c["mm"].as_u64().unwrap() as u32;
    let mut lz = LZDiff::new(mm);
    lz.prepare(&r);
    let enc = lz.encode(&t);
    let dec = if enc.is_empty() { r.clone() } else { lz.decode(&enc) };
    let ok = dec == t && !enc.contains(&0xFF);
    json!({ "enc": enc, "dec": dec, "ok": ok })
}
