//! Independent AGC v3 reader written from the format rules only (by a sub-agent that saw only the property text; taken verbatim
//! from seeded/C02-m1/demo.rs). It shares no code with ragc's writer/reader and uses only the zstd crate.
#![allow(clippy::all)]
#[allow(dead_code)]
pub mod indep {
    use std::collections::HashMap;

    pub const PACK: usize = 50;
    pub const NO_RAW_GROUPS: u32 = 16;
    pub const SEP: u8 = 0xFF;

    /// Length-prefixed big-endian integer: [n][n bytes, most significant first].
    /// Canonical form: no leading zero byte, n <= 8.
    pub fn be_int(b: &[u8], p: &mut usize) -> Result<u64, String> {
        let n = *b.get(*p).ok_or("be_int: eof")? as usize;
        *p += 1;
        if n > 8 {
            return Err(format!("be_int: length byte {n} > 8"));
        }
        if *p + n > b.len() {
            return Err("be_int: eof in value".into());
        }
        if n > 0 && b[*p] == 0 {
            return Err("be_int: non-canonical (leading zero byte)".into());
        }
        let mut v = 0u64;
        for _ in 0..n {
            v = (v << 8) | b[*p] as u64;
            *p += 1;
        }
        Ok(v)
    }

    fn cstr(b: &[u8], p: &mut usize) -> Result<Vec<u8>, String> {
        let s = *p;
        while *p < b.len() && b[*p] != 0 {
            *p += 1;
        }
        if *p >= b.len() {
            return Err("cstr: missing NUL".into());
        }
        let out = b[s..*p].to_vec();
        *p += 1;
        Ok(out)
    }

    /// Collection prefix-varint per the format rules.
    pub fn cvar(b: &[u8], p: &mut usize) -> Result<u32, String> {
        let need = |n: usize, p: usize| -> Result<(), String> {
            if p + n > b.len() {
                Err("cvar: eof".into())
            } else {
                Ok(())
            }
        };
        need(1, *p)?;
        let b0 = b[*p] as u32;
        if b0 & 0x80 == 0 {
            *p += 1;
            Ok(b0)
        } else if b0 & 0xC0 == 0x80 {
            need(2, *p)?;
            let v = ((b0 & 0x3f) << 8) | b[*p + 1] as u32;
            *p += 2;
            Ok(v + 128)
        } else if b0 & 0xE0 == 0xC0 {
            need(3, *p)?;
            let v = ((b0 & 0x1f) << 16) | (b[*p + 1] as u32) << 8 | b[*p + 2] as u32;
            *p += 3;
            Ok(v + 128 + 16384)
        } else if b0 & 0xF0 == 0xE0 {
            need(4, *p)?;
            let v = ((b0 & 0x0f) << 24)
                | (b[*p + 1] as u32) << 16
                | (b[*p + 2] as u32) << 8
                | b[*p + 3] as u32;
            *p += 4;
            Ok(v + 128 + 16384 + 2097152)
        } else {
            need(5, *p)?;
            let v = (b[*p + 1] as u32) << 24
                | (b[*p + 2] as u32) << 16
                | (b[*p + 3] as u32) << 8
                | b[*p + 4] as u32;
            *p += 5;
            Ok(v + 128 + 16384 + 2097152 + 268435456)
        }
    }

    fn zz_dec(x: u64, prev: u64) -> u64 {
        if x >= 2 * prev {
            x
        } else if x & 1 == 1 {
            (2 * prev - x) / 2
        } else {
            (x + 2 * prev) / 2
        }
    }

    pub fn base64_id(mut n: u32) -> String {
        let digits: Vec<char> = ('0'..='9')
            .chain('A'..='Z')
            .chain('a'..='z')
            .chain(['_', '#'])
            .collect();
        let mut s = String::new();
        loop {
            s.push(digits[(n % 64) as usize]);
            n /= 64;
            if n == 0 {
                break;
            }
        }
        s
    }

    #[derive(Debug, Clone)]
    pub struct Seg {
        pub group: u32,
        pub in_group: u32,
        pub rev: bool,
        pub raw_len: u32,
    }

    pub struct Agc {
        file: Vec<u8>,
        pub streams: HashMap<String, Vec<(u64, u64)>>,
        pub k: u32,
        pub min_match: u32,
        pub pack_card: u32,
        pub seg_size: u32,
        /// (sample, [(contig, segments)])
        pub samples: Vec<(String, Vec<(String, Vec<Seg>)>)>,
    }

    fn zstd_exact(data: &[u8], raw: usize, what: &str) -> Result<Vec<u8>, String> {
        // Like a C/C++ reader: destination buffer is exactly the advertised size.
        let out = zstd::bulk::decompress(data, raw)
            .map_err(|e| format!("{what}: zstd into {raw}-byte buffer failed: {e}"))?;
        if out.len() != raw {
            return Err(format!("{what}: metadata says {raw}, got {}", out.len()));
        }
        Ok(out)
    }

    fn tuples_to_bytes(t: &[u8]) -> Result<Vec<u8>, String> {
        let marker = *t.last().ok_or("tuples: empty")?;
        let n = (marker >> 4) as usize;
        let trailing = (marker & 0xf) as usize;
        if n == 1 {
            return Ok(t[..t.len() - 1].to_vec());
        }
        let max: u32 = match n {
            2 => 16,
            3 => 6,
            4 => 4,
            _ => return Err(format!("tuples: bad marker {marker:#x}")),
        };
        let out_len = (t.len() - 2) * n + trailing;
        let mut out = vec![0u8; out_len];
        let (mut i, mut j) = (0usize, 0usize);
        while j + n <= out_len {
            let mut c = t[i] as u32;
            for q in (0..n).rev() {
                out[j + q] = (c % max) as u8;
                c /= max;
            }
            i += 1;
            j += n;
        }
        let r = out_len % n;
        if r > 0 {
            let mut c = t[i] as u32;
            for q in (0..r).rev() {
                out[j + q] = (c % max) as u8;
                c /= max;
            }
        }
        Ok(out)
    }

    impl Agc {
        pub fn open(path: &str) -> Result<Agc, String> {
            let file = std::fs::read(path).map_err(|e| e.to_string())?;
            let n = file.len();
            let fsz = u64::from_le_bytes(file[n - 8..].try_into().unwrap()) as usize;
            let footer = &file[n - 8 - fsz..n - 8];
            let mut p = 0usize;
            let ns = be_int(footer, &mut p)?;
            let mut streams = HashMap::new();
            for _ in 0..ns {
                let name = String::from_utf8(cstr(footer, &mut p)?).map_err(|e| e.to_string())?;
                let np = be_int(footer, &mut p)?;
                let _raw = be_int(footer, &mut p)?;
                let mut parts = Vec::new();
                for _ in 0..np {
                    let off = be_int(footer, &mut p)?;
                    let sz = be_int(footer, &mut p)?;
                    parts.push((off, sz));
                }
                if streams.insert(name.clone(), parts).is_some() {
                    return Err(format!("duplicate stream {name}"));
                }
            }
            if p != footer.len() {
                return Err("footer: trailing bytes".into());
            }
            let mut a = Agc {
                file,
                streams,
                k: 0,
                min_match: 0,
                pack_card: 0,
                seg_size: 0,
                samples: Vec::new(),
            };
            a.load_params()?;
            a.load_collection()?;
            Ok(a)
        }

        pub fn n_parts(&self, stream: &str) -> Option<usize> {
            self.streams.get(stream).map(|v| v.len())
        }

        /// (data, metadata)
        pub fn part(&self, stream: &str, idx: usize) -> Result<(Vec<u8>, u64), String> {
            let parts = self
                .streams
                .get(stream)
                .ok_or_else(|| format!("stream {stream} not in directory"))?;
            let &(off, sz) = parts
                .get(idx)
                .ok_or_else(|| format!("stream {stream}: no part {idx} (has {})", parts.len()))?;
            let mut p = off as usize;
            let meta = be_int(&self.file, &mut p)?;
            Ok((self.file[p..p + sz as usize].to_vec(), meta))
        }

        fn load_params(&mut self) -> Result<(), String> {
            let (d, _) = self.part("params", 0)?;
            if d.len() < 16 {
                return Err("params too short".into());
            }
            let u = |i: usize| u32::from_le_bytes(d[4 * i..4 * i + 4].try_into().unwrap());
            self.k = u(0);
            self.min_match = u(1);
            self.pack_card = u(2);
            self.seg_size = u(3);
            Ok(())
        }

        fn load_collection(&mut self) -> Result<(), String> {
            // samples
            let (d, raw) = self.part("collection-samples", 0)?;
            let d = zstd_exact(&d, raw as usize, "collection-samples")?;
            let mut p = 0;
            let ns = cvar(&d, &mut p)? as usize;
            let mut names = Vec::new();
            for _ in 0..ns {
                names.push(String::from_utf8(cstr(&d, &mut p)?).map_err(|e| e.to_string())?);
            }
            let nb = self.n_parts("collection-contigs").ok_or("no collection-contigs")?;
            if self.n_parts("collection-details") != Some(nb) {
                return Err("contigs/details batch count differs".into());
            }
            let mut si = 0usize;
            for b in 0..nb {
                // contig names
                let (d, raw) = self.part("collection-contigs", b)?;
                let d = zstd_exact(&d, raw as usize, "collection-contigs")?;
                let mut p = 0;
                let n_in_batch = cvar(&d, &mut p)? as usize;
                let mut batch: Vec<(String, Vec<(String, Vec<Seg>)>)> = Vec::new();
                for i in 0..n_in_batch {
                    let nc = cvar(&d, &mut p)? as usize;
                    let mut prev: Vec<Vec<u8>> = Vec::new();
                    let mut contigs = Vec::new();
                    for _ in 0..nc {
                        let enc = cstr(&d, &mut p)?;
                        let mut cur: Vec<Vec<u8>> =
                            enc.split(|&c| c == b' ').map(|s| s.to_vec()).collect();
                        let name = if cur.len() != prev.len() {
                            enc.clone()
                        } else {
                            for (ci, comp) in cur.iter_mut().enumerate() {
                                if comp.len() == 1 && comp[0] == 0x81 {
                                    *comp = prev[ci].clone();
                                } else {
                                    let mut out = Vec::new();
                                    let mut pi = 0usize;
                                    for &c in comp.iter() {
                                        if c < 0x80 {
                                            out.push(c);
                                            pi += 1;
                                        } else {
                                            let cnt = 256 - c as usize;
                                            out.extend_from_slice(&prev[ci][pi..pi + cnt]);
                                            pi += cnt;
                                        }
                                    }
                                    *comp = out;
                                }
                            }
                            cur.join(&b' ')
                        };
                        prev = cur;
                        contigs.push((String::from_utf8(name).map_err(|e| e.to_string())?, Vec::new()));
                    }
                    batch.push((names[si + i].clone(), contigs));
                }
                // details
                let (d, _) = self.part("collection-details", b)?;
                let mut p = 0;
                let mut sizes = [(0usize, 0usize); 5];
                for s in sizes.iter_mut() {
                    s.0 = cvar(&d, &mut p)? as usize;
                    s.1 = cvar(&d, &mut p)? as usize;
                }
                let mut st: Vec<Vec<u8>> = Vec::new();
                for (i, s) in sizes.iter().enumerate() {
                    if p + s.1 > d.len() {
                        return Err(format!("details sub-stream {i} overruns part"));
                    }
                    st.push(zstd_exact(&d[p..p + s.1], s.0, &format!("details sub-stream {i}"))?);
                    p += s.1;
                }
                if p != d.len() {
                    return Err("details: trailing bytes".into());
                }
                let mut p0 = 0;
                let nsb = cvar(&st[0], &mut p0)? as usize;
                if nsb != n_in_batch {
                    return Err("details: sample count differs from contigs batch".into());
                }
                let mut ps = [0usize; 5];
                let mut last: HashMap<u32, i64> = HashMap::new();
                let pred = (self.seg_size + self.k) as u64;
                for s in batch.iter_mut() {
                    let nc = cvar(&st[0], &mut p0)? as usize;
                    if nc != s.1.len() {
                        return Err("details: contig count differs".into());
                    }
                    let counts: Vec<usize> = (0..nc)
                        .map(|_| cvar(&st[0], &mut p0).map(|v| v as usize))
                        .collect::<Result<_, _>>()?;
                    for (ci, &cnt) in counts.iter().enumerate() {
                        for _ in 0..cnt {
                            let g = cvar(&st[1], &mut ps[1])?;
                            let e_in = cvar(&st[2], &mut ps[2])?;
                            let e_len = cvar(&st[3], &mut ps[3])?;
                            let rc = cvar(&st[4], &mut ps[4])?;
                            let prev = *last.get(&g).unwrap_or(&-1);
                            let in_g = if prev == -1 {
                                e_in
                            } else if e_in == 0 {
                                0
                            } else if e_in == 1 {
                                (prev + 1) as u32
                            } else {
                                zz_dec(e_in as u64 - 1, (prev + 1) as u64) as u32
                            };
                            let raw_len = zz_dec(e_len as u64, pred) as u32;
                            if in_g as i64 > prev && in_g > 0 {
                                last.insert(g, in_g as i64);
                            }
                            s.1[ci].1.push(Seg { group: g, in_group: in_g, rev: rc != 0, raw_len });
                        }
                    }
                }
                for i in 1..5 {
                    if ps[i] != st[i].len() {
                        return Err(format!("details sub-stream {i}: trailing bytes"));
                    }
                }
                si += n_in_batch;
                self.samples.extend(batch);
            }
            if si != ns {
                return Err("sample count mismatch".into());
            }
            Ok(())
        }

        /// Unpack one archive part according to the marker / metadata convention.
        fn unpack_part(&self, stream: &str, idx: usize) -> Result<Vec<u8>, String> {
            let (mut d, meta) = self.part(stream, idx)?;
            if meta == 0 {
                return Ok(d); // stored raw
            }
            let marker = d.pop().ok_or("empty packed part")?;
            let what = format!("{stream}[{idx}]");
            match marker {
                0 => zstd_exact(&d, meta as usize, &what),
                1 => {
                    let t = zstd::stream::decode_all(&d[..]).map_err(|e| format!("{what}: {e}"))?;
                    let b = tuples_to_bytes(&t)?;
                    if b.len() != meta as usize {
                        return Err(format!("{what}: metadata {meta} != unpacked {}", b.len()));
                    }
                    Ok(b)
                }
                m => Err(format!("{what}: unknown marker byte {m}")),
            }
        }

        fn pack_entry(&self, stream: &str, pack: usize, entry: usize) -> Result<Vec<u8>, String> {
            let d = self.unpack_part(stream, pack)?;
            if d.last() != Some(&SEP) {
                return Err(format!("{stream}[{pack}]: pack not 0xFF-terminated"));
            }
            let entries: Vec<&[u8]> = d[..d.len() - 1].split(|&c| c == SEP).collect();
            if entries.len() > PACK {
                return Err(format!("{stream}[{pack}]: {} entries > 50", entries.len()));
            }
            entries
                .get(entry)
                .map(|e| e.to_vec())
                .ok_or_else(|| format!("{stream}[{pack}]: no entry {entry} (has {})", entries.len()))
        }

        fn lz_decode(&self, reference: &[u8], enc: &[u8]) -> Result<Vec<u8>, String> {
            let mut out = Vec::new();
            let mut pred = 0usize;
            let mut i = 0usize;
            let read_int = |i: &mut usize| -> i64 {
                let neg = enc[*i] == b'-';
                if neg {
                    *i += 1;
                }
                let mut x = 0i64;
                while *i < enc.len() && enc[*i].is_ascii_digit() {
                    x = x * 10 + (enc[*i] - b'0') as i64;
                    *i += 1;
                }
                if neg {
                    -x
                } else {
                    x
                }
            };
            while i < enc.len() {
                let c = enc[i];
                if c == b'!' {
                    out.push(*reference.get(pred).ok_or("lz: '!' beyond reference")?);
                    pred += 1;
                    i += 1;
                } else if c >= b'A' {
                    out.push(c - b'A');
                    pred += 1;
                    i += 1;
                } else if c == 30 {
                    i += 1;
                    let n = read_int(&mut i) as usize + 4; // min N-run length is 4
                    if enc.get(i) != Some(&4) {
                        return Err("lz: N-run not terminated by N code".into());
                    }
                    i += 1;
                    out.resize(out.len() + n, 4);
                } else {
                    let pos = (pred as i64 + read_int(&mut i)) as usize;
                    let len = match enc.get(i) {
                        Some(b'.') => {
                            i += 1;
                            reference.len().checked_sub(pos).ok_or("lz: pos beyond ref")?
                        }
                        Some(b',') => {
                            i += 1;
                            let l = read_int(&mut i) as usize + self.min_match as usize;
                            if enc.get(i) != Some(&b'.') {
                                return Err("lz: match not terminated by '.'".into());
                            }
                            i += 1;
                            l
                        }
                        _ => return Err("lz: malformed match".into()),
                    };
                    if pos + len > reference.len() {
                        return Err("lz: match beyond reference".into());
                    }
                    out.extend_from_slice(&reference[pos..pos + len]);
                    pred = pos + len;
                }
            }
            Ok(out)
        }

        pub fn segment(&self, s: &Seg) -> Result<Vec<u8>, String> {
            let id = base64_id(s.group);
            let out = if s.group < NO_RAW_GROUPS {
                let stream = format!("x{id}d");
                let ph = self.pack_entry(&stream, 0, 0)?;
                if ph != [0x7f] {
                    return Err(format!("{stream}: raw-group placeholder entry is {ph:?}"));
                }
                if s.in_group == 0 {
                    return Err("raw group: descriptor points at placeholder".into());
                }
                let i = s.in_group as usize;
                self.pack_entry(&stream, i / PACK, i % PACK)?
            } else {
                let rs = format!("x{id}r");
                if self.n_parts(&rs) != Some(1) {
                    return Err(format!("{rs}: expected exactly one reference part, got {:?}", self.n_parts(&rs)));
                }
                let reference = self.unpack_part(&rs, 0)?;
                if s.in_group == 0 {
                    reference
                } else {
                    let i = s.in_group as usize - 1;
                    let enc = self.pack_entry(&format!("x{id}d"), i / PACK, i % PACK)?;
                    if enc.is_empty() {
                        reference
                    } else {
                        self.lz_decode(&reference, &enc)?
                    }
                }
            };
            if out.len() != s.raw_len as usize {
                return Err(format!(
                    "group {} id {}: descriptor raw_length {} != decoded length {}",
                    s.group, s.in_group, s.raw_len, out.len()
                ));
            }
            Ok(out)
        }

        pub fn contig(&self, segs: &[Seg]) -> Result<Vec<u8>, String> {
            let mut out = Vec::new();
            for (i, s) in segs.iter().enumerate() {
                let mut d = self.segment(s)?;
                if s.rev {
                    d.reverse();
                    for b in d.iter_mut() {
                        if *b < 4 {
                            *b = 3 - *b;
                        }
                    }
                }
                if i == 0 {
                    out.extend_from_slice(&d);
                } else {
                    out.extend_from_slice(&d[self.k as usize..]);
                }
            }
            Ok(out)
        }
    }
}

