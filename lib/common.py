"""Shared plumbing: paths, source hashing, MIR dumps, subprocess helpers, evidence, known findings."""
import hashlib, json, os, subprocess, sys, time, glob, shutil

VERIF = os.path.dirname(os.path.dirname(os.path.abspath(__file__)))
REPO = os.environ.get("VERIF_REPO", "/repo")
# Development aid: VERIF_REPO=<scratch copy> checks another tree (own build directory); the registered commands always use /repo.
BUILD = os.path.join(VERIF, ".build") if REPO == "/repo" else os.path.join(VERIF, ".build", "alt-" + hashlib.sha1(REPO.encode()).hexdigest()[:8])
EVID = os.path.join(VERIF, "evidence")
OUT = os.path.join(VERIF, "out") if REPO == "/repo" else os.path.join(BUILD, "out")          # counterexamples / replay inputs (git-ignored)
GUARD = "ekg_ragc_verif"
NCPU = int(os.environ.get("VERIF_JOBS", os.cpu_count() or 4))

ENV = dict(os.environ, CARGO_NET_OFFLINE="true")


def log(*a):
    print(*a, file=sys.stderr, flush=True)


def src_files(crates=("ragc-core", "ragc-common", "ragc-cli")):
    fs = [os.path.join(REPO, "Cargo.toml"), os.path.join(REPO, "Cargo.lock")]
    for c in crates:
        fs.append(os.path.join(REPO, c, "Cargo.toml"))
        fs += sorted(glob.glob(os.path.join(REPO, c, "build.rs")))
        fs += sorted(glob.glob(os.path.join(REPO, c, "src", "**", "*.rs"), recursive=True))
    return [f for f in fs if os.path.isfile(f)]


def src_hash(crates=("ragc-core", "ragc-common", "ragc-cli")):
    h = hashlib.sha256()
    for f in src_files(crates):
        h.update(f.encode()); h.update(b"\0")
        h.update(open(f, "rb").read()); h.update(b"\0")
    return h.hexdigest()[:16]


MIR_TARGETS = {
    "ragc-common": ("ragc-common", ["--lib"]),
    "ragc-core": ("ragc-core", ["--lib"]),
    "ragc-cli": ("ragc-cli", ["--bin", "ragc"]),
}


def mir_dump(crate, overflow_checks=True):
    """MIR text of `crate` for /repo's *current* working tree. Cached by a hash of the sources, so the
    dump (and therefore every encoding) is regenerated whenever any source file changes."""
    pkg, tgt = MIR_TARGETS[crate]
    deps = {"ragc-common": ("ragc-common",), "ragc-core": ("ragc-core", "ragc-common"),
            "ragc-cli": ("ragc-cli", "ragc-core", "ragc-common")}[crate]
    key = src_hash(deps)
    d = os.path.join(BUILD, "mir"); os.makedirs(d, exist_ok=True)
    tag = "ovf" if overflow_checks else "noovf"
    path = os.path.join(d, f"{crate}.{tag}.{key}.mir")
    if os.path.exists(path) and os.path.getsize(path) > 1000:
        return path
    import fcntl
    lk = open(os.path.join(d, "dump.lock"), "w"); fcntl.flock(lk, fcntl.LOCK_EX)
    if os.path.exists(path) and os.path.getsize(path) > 1000:
        return path
    for old in glob.glob(os.path.join(d, f"{crate}.{tag}.*.mir")):
        os.remove(old)
    tdir = os.path.join(BUILD, f"mir-target-{tag}")
    # -Zunpretty prints only when rustc actually runs: force it by touching the crate root fingerprint
    # (done on a cargo level by a unique RUSTFLAGS-neutral env var is not possible; we clean the package instead)
    subprocess.run(["cargo", "+nightly", "clean", "--offline", "-p", pkg, "--target-dir", tdir],
                   cwd=REPO, env=ENV, stdout=subprocess.DEVNULL, stderr=subprocess.DEVNULL)
    cmd = ["cargo", "+nightly", "rustc", "--offline", "-p", pkg, *tgt, "--target-dir", tdir, "--",
           "-Zunpretty=mir", "-Zmir-opt-level=0", "-C", "debug-assertions=off",
           "-C", f"overflow-checks={'on' if overflow_checks else 'off'}"]
    t = time.time()
    tmp = path + ".tmp"
    with open(tmp, "wb") as f:
        r = subprocess.run(cmd, cwd=REPO, env=ENV, stdout=f, stderr=subprocess.PIPE)
    if r.returncode != 0 or os.path.getsize(tmp) < 1000:
        log(r.stderr.decode()[-3000:])
        raise RuntimeError(f"MIR dump of {crate} failed (rc={r.returncode})")
    os.replace(tmp, path)
    log(f"[mir] {crate} {tag}: {os.path.getsize(path)//1024} KiB in {time.time()-t:.1f}s")
    return path


def run_cmd(cmd, cwd=None, timeout=None, mem_gb=None, env=None):
    pre = None
    if mem_gb:
        import resource
        lim = int(mem_gb * (1 << 30))
        def pre():
            resource.setrlimit(resource.RLIMIT_AS, (lim, lim))
    try:
        r = subprocess.run(cmd, cwd=cwd, env=env or ENV, stdout=subprocess.PIPE, stderr=subprocess.STDOUT,
                           timeout=timeout, preexec_fn=pre)
        return r.returncode, r.stdout.decode(errors="replace")
    except subprocess.TimeoutExpired as e:
        return -9, (e.stdout or b"").decode(errors="replace") + "\n[TIMEOUT]"


# ------------------------------------------------------------------ known findings
def load_findings():
    p = os.path.join(VERIF, "known_findings.json")
    if not os.path.exists(p):
        return []
    return json.load(open(p))["findings"]


def match_finding(prop, role):
    """A violation is suppressed only by a `known` entry for the same property whose role matches
    exactly (role = function + failing condition, not the concrete bytes). `fixed` entries suppress nothing."""
    for f in load_findings():
        if f.get("status") == "known" and prop in f["properties"] and f["role"] == role:
            return f
    return None


# ------------------------------------------------------------------ evidence
def write_evidence(prop, tier, seed, level, coverage, assumptions, wall_s, violations, extra=None):
    os.makedirs(EVID, exist_ok=True)
    ev = {"property_id": prop, "tier": tier, "seed": int(seed), "level": level, "coverage": coverage,
          "assumptions": assumptions, "wall_s": round(wall_s, 2), "violations": int(violations)}
    if extra:
        ev.update(extra)
    tmp = os.path.join(EVID, f"{prop}.json.tmp")
    json.dump(ev, open(tmp, "w"), indent=1, default=str)
    os.replace(tmp, os.path.join(EVID, f"{prop}.json"))
    return ev
