"""Native replay of CLI-level counterexamples with the real `ragc` binary built from /repo (dev and release)."""
import os, shutil, subprocess, tempfile, fcntl
from .common import REPO, BUILD, ENV, log, run_cmd

_bins = {}
LETTERS = "ACGTNRYSWKMBDHVU"


def ragc_bin(profile):
    if profile in _bins:
        return _bins[profile]
    tdir = os.path.join(BUILD, "cli")
    cmd = ["cargo", "build", "--offline", "-p", "ragc-cli", "--target-dir", tdir] + (["--release"] if profile == "release" else [])
    with open(os.path.join(BUILD, "cli.lock"), "w") as lk:
        fcntl.flock(lk, fcntl.LOCK_EX)
        rc, out = run_cmd(cmd, cwd=REPO, timeout=3000)
    if rc != 0:
        log(out[-2000:]); raise RuntimeError("ragc-cli build failed")
    _bins[profile] = os.path.join(tdir, "release" if profile == "release" else "debug", "ragc")
    return _bins[profile]


def cli_getset(case, profile):
    exe = ragc_bin(profile)
    d = tempfile.mkdtemp(prefix="ragc-cli-")
    try:
        names = ["a1", "b", "a2"]
        files = []
        for nm, seq in zip(names, case["seqs"]):
            p = os.path.join(d, nm + ".fa")
            with open(p, "w") as f:
                f.write(f">ctg_{nm}\n" + "".join(LETTERS[c] if c < 16 else "X" for c in seq) + "\n")
            files.append(p)
        arc = os.path.join(d, "x.agc")
        r = subprocess.run([exe, "create", "-o", arc] + files, capture_output=True, timeout=300)
        if r.returncode != 0:
            return {"error": "create failed", "stderr": r.stderr.decode()[-300:], "panic" if b"panicked" in r.stderr else "note": "create"}

        def get(args, to_file):
            if to_file:
                o = os.path.join(d, "out.fa")
                if os.path.exists(o):
                    os.remove(o)
                if case.get("preexisting"):
                    open(o, "w").write("X" * 4096)
                rr = subprocess.run([exe, "getset", arc] + args + ["-o", o], capture_output=True, timeout=300)
                return rr.returncode, (open(o, "rb").read() if os.path.exists(o) else b""), rr.stderr
            rr = subprocess.run([exe, "getset", arc] + args, capture_output=True, timeout=300)
            return rr.returncode, rr.stdout, rr.stderr
        if case.get("prefix") is not None:
            want = [n for n in names if n.startswith(case["prefix"])]
            rc, got, err = get(["-p", case["prefix"]] if case["prefix"] != "" else ["-p", ""], case["to_file"])
            unknown = False
        else:
            want = case["request"]; unknown = any(n not in names for n in want)
            rc, got, err = get(list(want), case["to_file"])
        if b"panicked" in err:
            return {"panic": err.decode()[-300:], "exit": rc}
        if unknown or not want:
            return {"ok": rc != 0, "exit": rc, "why": "failure must give a non-zero exit status"}
        exp = b""
        for n in want:
            c1, o1, _ = get([n], False)
            exp += o1
        return {"ok": rc == 0 and got == exp, "exit": rc, "got": got.decode(errors="replace")[:200], "expected": exp.decode(errors="replace")[:200]}
    finally:
        shutil.rmtree(d, ignore_errors=True)


def cli_create_flags(case, profile):
    exe = ragc_bin(profile)
    d = tempfile.mkdtemp(prefix="ragc-cli-")
    try:
        fa = os.path.join(d, "a.fa")
        open(fa, "w").write(">c1\n" + "ACGT" * 50 + "\n")
        arc = os.path.join(d, "new.agc")
        args = [exe, "create", "-o", arc, fa, "-t", "1"]
        for k, flag in (("batch", "--batch"), ("adaptive", "--adaptive"), ("concatenated", "--concatenated"), ("cpp_agc", "--cpp-agc")):
            if case.get("flag_" + k):
                args.append(flag)
        r = subprocess.run(args, capture_output=True, timeout=300)
        if b"panicked" in r.stderr:
            return {"panic": r.stderr.decode()[-300:], "exit": r.returncode}
        exists = os.path.exists(arc) and os.path.getsize(arc) > 0
        return {"ok": r.returncode != 0 or exists, "exit": r.returncode, "archive_exists": exists, "stderr": r.stderr.decode()[-200:]}
    finally:
        shutil.rmtree(d, ignore_errors=True)


def _create(exe, d, files, threads, k, tag="x"):
    paths = []
    for fn, text in files:
        p = os.path.join(d, fn)
        with open(p, "wb") as f:
            f.write(text.encode("latin-1") if isinstance(text, str) else bytes(text))
        paths.append(p)
    arc = os.path.join(d, tag + ".agc")
    r = subprocess.run([exe, "create", "-o", arc, "-k", str(k), "-s", "4", "-m", "4", "-t", str(threads), "-v", "0"] + paths, capture_output=True, timeout=600)
    return arc, r


def _extract_all(exe, arc):
    r = subprocess.run([exe, "listset", arc], capture_output=True, timeout=300)
    if r.returncode != 0:
        return None, r
    out = []
    for nm in r.stdout.decode().split():
        g = subprocess.run([exe, "getset", arc, nm], capture_output=True, timeout=300)
        if g.returncode != 0:
            out.append([nm, None]); continue
        recs = []
        for line in g.stdout.decode().splitlines():
            if line.startswith(">"):
                recs.append([line[1:], ""])
            elif recs:
                recs[-1][1] += line.strip()
        out.append([nm, recs])
    return out, r


def cli_create_roundtrip(case, profile):
    """real `ragc create` on the given files, then listset + getset of every sample; compared with `want`"""
    exe = ragc_bin(profile)
    d = tempfile.mkdtemp(prefix="ragc-cli-")
    try:
        arc, r = _create(exe, d, case["files"], case.get("threads", 1), case.get("k", 3))
        if b"panicked" in r.stderr:
            return {"panic": r.stderr.decode()[-300:], "exit": r.returncode}
        if r.returncode != 0:
            return {"ok": case.get("may_fail", False), "exit": r.returncode, "why": "create failed", "stderr": r.stderr.decode()[-200:]}
        got, rr = _extract_all(exe, arc)
        if got is None:
            return {"ok": False, "why": "create exited 0 but listset failed", "stderr": rr.stderr.decode()[-200:]}
        return {"ok": got == case["want"], "got": got, "want": case["want"]}
    finally:
        shutil.rmtree(d, ignore_errors=True)


def cli_create_identical(case, profile):
    """two presentations of the same sequences: the archives must be byte-identical"""
    exe = ragc_bin(profile)
    d = tempfile.mkdtemp(prefix="ragc-cli-")
    try:
        os.makedirs(os.path.join(d, "a")); os.makedirs(os.path.join(d, "b"))
        arcs = []
        for tag, files in (("a", case["files_a"]), ("b", case["files_b"])):
            arc, r = _create(exe, os.path.join(d, tag), files, case.get("threads", 1), case.get("k", 3), tag)
            if b"panicked" in r.stderr:
                return {"panic": r.stderr.decode()[-300:]}
            if r.returncode != 0:
                return {"ok": False, "why": f"create failed for presentation {tag}", "stderr": r.stderr.decode()[-200:]}
            arcs.append(open(arc, "rb").read())
        return {"ok": arcs[0] == arcs[1], "sizes": [len(a) for a in arcs]}
    finally:
        shutil.rmtree(d, ignore_errors=True)


def cli_getset_fault(case, profile):
    """getset of two samples where the destination cannot be written (stdout and -o on /dev/full): the exit status must be non-zero"""
    exe = ragc_bin(profile)
    d = tempfile.mkdtemp(prefix="ragc-cli-")
    try:
        names = ["a1", "b", "a2"]; files = []
        for nm, seq in zip(names, case["seqs"]):
            p = os.path.join(d, nm + ".fa")
            with open(p, "w") as f:
                f.write(f">ctg_{nm}\n" + "".join(LETTERS[c] if c < 16 else "X" for c in seq) + "\n")
            files.append(p)
        arc = os.path.join(d, "x.agc")
        r = subprocess.run([exe, "create", "-o", arc] + files, capture_output=True, timeout=300)
        if r.returncode != 0:
            return {"error": "create failed"}
        res = {}
        r1 = subprocess.run([exe, "getset", arc] + list(case["request"]) + ["-o", "/dev/full"], capture_output=True, timeout=300)
        with open("/dev/full", "w") as full:
            r2 = subprocess.run([exe, "getset", arc] + list(case["request"]), stdout=full, stderr=subprocess.PIPE, timeout=300)
        if b"panicked" in r1.stderr + r2.stderr:
            return {"panic": (r1.stderr + r2.stderr).decode()[-300:]}
        return {"ok": r1.returncode != 0 and r2.returncode != 0, "exit_o_dev_full": r1.returncode, "exit_stdout_dev_full": r2.returncode}
    finally:
        shutil.rmtree(d, ignore_errors=True)


def cli_create_pan_vs_files(case, profile):
    exe = ragc_bin(profile)
    d = tempfile.mkdtemp(prefix="ragc-cli-")
    try:
        res = []
        for tag, files in (("p", case["pan"]), ("f", case["files"])):
            os.makedirs(os.path.join(d, tag))
            arc, r = _create(exe, os.path.join(d, tag), files, case.get("threads", 1), 3, tag)
            if b"panicked" in r.stderr:
                return {"panic": r.stderr.decode()[-300:]}
            if r.returncode != 0:
                return {"ok": False, "why": f"create failed ({tag})", "stderr": r.stderr.decode()[-200:]}
            got, rr = _extract_all(exe, arc)
            res.append(got)
        return {"ok": res[0] == res[1] == case["want"], "pan": res[0], "files": res[1], "want": case["want"]}
    finally:
        shutil.rmtree(d, ignore_errors=True)


PY_CMDS = {"cli_getset_fault": cli_getset_fault, "cli_create_pan_vs_files": cli_create_pan_vs_files, "cli_getset": cli_getset, "cli_create_flags": cli_create_flags, "cli_create_roundtrip": cli_create_roundtrip, "cli_create_identical": cli_create_identical}
