"""Build and invoke the native replay binary (real ragc code, dev and release profiles)."""
import json, os, subprocess, tempfile, fcntl, shutil
from .common import VERIF, REPO, BUILD, ENV, GUARD, OUT, log, run_cmd, src_hash

_built = {}


def build(profile="dev"):
    if profile in _built:
        return _built[profile]
    os.makedirs(BUILD, exist_ok=True)
    crate = os.path.join(VERIF, "replay")
    if REPO != "/repo":       # scratch tree: private copy of the crate with its path dependencies redirected
        src = crate; crate = os.path.join(BUILD, "replay-crate")
        shutil.rmtree(crate, ignore_errors=True); shutil.copytree(src, crate, ignore=shutil.ignore_patterns("target"))
        os.makedirs(os.path.join(BUILD, "kani", "src"), exist_ok=True)
        shutil.copyfile(os.path.join(VERIF, "kani", "src", "kmer_checks.rs"), os.path.join(BUILD, "kani", "src", "kmer_checks.rs"))
        open(os.path.join(crate, "Cargo.toml"), "w").write(open(os.path.join(src, "Cargo.toml.in")).read().replace("@REPO@", REPO))
    shutil.copyfile(os.path.join(REPO, "Cargo.lock"), os.path.join(crate, "Cargo.lock"))
    tdir = os.path.join(BUILD, "replay")
    env = dict(ENV)
    env["RUSTFLAGS"] = (env.get("RUSTFLAGS", "") + f" --cfg {GUARD}").strip()
    cmd = ["cargo", "build", "--offline", "--target-dir", tdir]
    if profile == "release":
        cmd.append("--release")
    with open(os.path.join(BUILD, "replay.lock"), "w") as lk:
        fcntl.flock(lk, fcntl.LOCK_EX)
        rc, out = run_cmd(cmd, cwd=crate, env=env, timeout=1800)
    if rc != 0:
        log(out[-4000:])
        raise RuntimeError("replay crate build failed")
    p = os.path.join(tdir, "release" if profile == "release" else "debug", "ragc-replay")
    _built[profile] = p
    return p


def run(cmd, case, profile="dev", timeout=120):
    """Run one case (or {'batch': [...]}) through the real code. Returns parsed JSON, or
    {'crash': ...} when the process died (abort / timeout)."""
    from . import native_cli
    if cmd in native_cli.PY_CMDS:
        if isinstance(case, dict) and "batch" in case:
            return {"results": [native_cli.PY_CMDS[cmd](c, profile) for c in case["batch"]]}
        try:
            return native_cli.PY_CMDS[cmd](case, profile)
        except subprocess.TimeoutExpired:
            return {"crash": "timeout", "timeout": True}
    exe = build(profile)
    os.makedirs(OUT, exist_ok=True)
    fd, path = tempfile.mkstemp(suffix=".json", dir=OUT)
    with os.fdopen(fd, "w") as f:
        json.dump(case, f)
    try:
        try:
            r = subprocess.run([exe, cmd, path], stdout=subprocess.PIPE, stderr=subprocess.PIPE, timeout=timeout)
        except subprocess.TimeoutExpired:
            return {"crash": "timeout", "timeout": True}
        if r.returncode != 0:
            return {"crash": f"exit {r.returncode}", "stderr": r.stderr.decode(errors="replace")[-500:]}
        try:
            return json.loads(r.stdout.decode())
        except Exception as e:
            return {"crash": "bad output", "stdout": r.stdout.decode(errors="replace")[-500:]}
    finally:
        os.remove(path)


def save_case(prop, name, cmd, case):
    """Persist a counterexample as a replay file; returns its path."""
    d = os.path.join(OUT, prop); os.makedirs(d, exist_ok=True)
    p = os.path.join(d, f"{name}.json")
    json.dump({"cmd": cmd, "case": case}, open(p, "w"), indent=1)
    return p
