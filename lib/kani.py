"""Engine E1: run Kani harnesses of /verif/kani against /repo's current tree."""
import os, re, shutil, time, fcntl
from .common import VERIF, REPO, BUILD, ENV, NCPU, log, run_cmd

CRATE = os.path.join(VERIF, "kani")
TDIR = os.path.join(BUILD, "kani")


def _prep():
    global CRATE
    if REPO != "/repo":
        src = os.path.join(VERIF, "kani"); CRATE = os.path.join(BUILD, "kani-crate")
        shutil.rmtree(CRATE, ignore_errors=True); shutil.copytree(src, CRATE, ignore=shutil.ignore_patterns("target"))
        open(os.path.join(CRATE, "Cargo.toml"), "w").write(open(os.path.join(src, "Cargo.toml.in")).read().replace("@REPO@", REPO))
    shutil.copyfile(os.path.join(REPO, "Cargo.lock"), os.path.join(CRATE, "Cargo.lock"))
    os.makedirs(BUILD, exist_ok=True)


def run_harnesses(names, timeout=3000, jobs=None, mem_gb=40):
    """Run the named harnesses (-j parallel). Returns dict name -> 'pass' | 'fail' | 'error' and raw log.
    Unwinding assertions stay on (Kani default), so a too-small unwind bound is a failure, not a pass."""
    _prep()
    cmd = ["cargo", "kani", "--target-dir", TDIR, "-j", str(jobs or NCPU), "--output-format", "terse"]
    for n in names:
        cmd += ["--harness", n]
    with open(os.path.join(BUILD, "kani.lock"), "w") as lk:
        fcntl.flock(lk, fcntl.LOCK_EX)
        t = time.time()
        rc, out = run_cmd(cmd, cwd=CRATE, timeout=timeout, mem_gb=None)
        wall = time.time() - t
    res = {}
    failed = set(re.findall(r"Verification failed for - (\S+)", out))
    m = re.search(r"Complete - (\d+) successfully verified harnesses, (\d+) failures, (\d+) total", out)
    if not m:
        return {n: "error" for n in names}, out, wall, {}
    ok, nfail, total = map(int, m.groups())
    errored = "Status: ERROR" in out or "[TIMEOUT]" in out or "CBMC failed" in out or "out of memory" in out.lower()
    for n in names:
        full = [f for f in failed if f.endswith("::" + n) or f == n]
        res[n] = "fail" if full else "pass"
    if total != len(names) or ok + nfail != total:
        for n in names:
            if res[n] == "pass":
                res[n] = "error"
    if errored:
        # cannot attribute: re-run failed ones individually later; mark failures as 'fail?' for triage
        for n in names:
            if res[n] == "fail":
                res[n] = "fail?"
    checks = [int(x) for x in re.findall(r"\*\* \d+ of (\d+) failed", out)]
    covers = re.findall(r"\*\* (\d+) of (\d+) cover properties satisfied", out)
    stats = {"cbmc_checks": sum(checks), "covers_sat": sum(int(a) for a, b in covers), "covers_total": sum(int(b) for a, b in covers),
             "verification_time_s": round(sum(float(x) for x in re.findall(r"Verification Time: ([\d.]+)s", out)), 1)}
    return res, out, wall, stats


def counterexample(name, timeout=1800):
    """Re-run one failing harness with concrete playback; return the list of byte vectors Kani chose."""
    _prep()
    cmd = ["cargo", "kani", "--target-dir", TDIR, "--harness", name, "-Z", "concrete-playback",
           "--concrete-playback=print", "--output-format", "terse"]
    with open(os.path.join(BUILD, "kani.lock"), "w") as lk:
        fcntl.flock(lk, fcntl.LOCK_EX)
        rc, out = run_cmd(cmd, cwd=CRATE, timeout=timeout)
    m = re.search(r"let concrete_vals: Vec<Vec<u8>> = vec!\[(.*?)\];", out, re.S)
    if not m:
        return None, out
    vecs = [[int(x) for x in v.split(",") if x.strip()] for v in re.findall(r"vec!\[([\d,\s]*)\]", m.group(1))]
    return vecs, out
