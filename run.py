#!/usr/bin/env python3
"""Entry point of every check:  python3-vt run.py <property-id> --tier quick|thorough
Exit 0: property held on everything explored (known findings are printed as KNOWN-FINDING lines).
Exit 1: a counterexample reproduced natively against the real code and not listed in known_findings.json
        (prints `VIOLATION property=<id> replay=<path>`).
Exit 2: inconclusive (solver timeout/unknown, unmodelled callee reached, budget hit, or a counterexample
        that did not reproduce natively = engine/model bug). Never reported as a pass.
        `--replay <path>` re-runs a saved counterexample natively."""
import argparse, importlib, json, os, sys, time, traceback

sys.path.insert(0, os.path.dirname(os.path.abspath(__file__)))
from lib import common
from lib.common import log


def main():
    ap = argparse.ArgumentParser()
    ap.add_argument("prop")
    ap.add_argument("--tier", default=os.environ.get("VERIF_TIER", "quick"), choices=["quick", "thorough"])
    ap.add_argument("--replay")
    ap.add_argument("--only", help="run only the named sub-harness instances (comma separated; development aid)")
    a = ap.parse_args()
    seed = int(os.environ.get("VERIF_SEED", "0") or 0)
    if a.replay:
        from lib import replay
        d = json.load(open(a.replay))
        for prof in ("dev", "release"):
            print(prof, json.dumps(replay.run(d["cmd"], d["case"], profile=prof)))
        return 0
    mod = importlib.import_module(f"harness.{a.prop}")
    t0 = time.time()
    ctx = {"tier": a.tier, "seed": seed, "only": a.only.split(",") if a.only else None}
    try:
        res = mod.run(ctx)
    except Exception as e:
        traceback.print_exc()
        res = {"level": "model_checking", "coverage": {"evaluations": 0, "distinct_nontrivial": 0, "explanation": "check crashed"},
               "assumptions": [], "violations": [], "inconclusive": [f"check crashed: {e!r}"]}
    wall = time.time() - t0
    new, known = [], []
    for v in res.get("violations", []):
        if not v.get("confirmed"):
            res.setdefault("inconclusive", []).append(f"counterexample did not reproduce natively: {v['role']} {v.get('desc','')}")
            continue
        f = common.match_finding(a.prop, v["role"])
        (known if f else new).append((v, f))
    seen = set()
    for v, f in known:
        if f["id"] in seen:
            continue
        seen.add(f["id"])
        print(f"KNOWN-FINDING: property={a.prop} {f['id']} {f['what']} (e.g. replay={v.get('replay')})")
    for v, _ in new:
        print(f"VIOLATION property={a.prop} replay={v.get('replay')}   # {v['role']}: {v.get('desc','')}")
    cov = res["coverage"]
    cov["known_findings_hit"] = sorted(seen)
    cov["inconclusive"] = res.get("inconclusive", [])
    common.write_evidence(a.prop, a.tier, seed, res.get("level", "model_checking"), cov, res.get("assumptions", []),
                          wall, len(new) + len(known))
    for m in res.get("inconclusive", []):
        print(f"INCONCLUSIVE property={a.prop}: {m}")
    if new:
        return 1
    if res.get("inconclusive"):
        return 2
    print(f"OK property={a.prop} tier={a.tier} wall={wall:.1f}s")
    return 0


if __name__ == "__main__":
    sys.exit(main())
