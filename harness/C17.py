"""C17 — CLI extraction composes and failures are reported (getset, partial).
E2 (mirsym) over the real getset_command (ragc-cli MIR) + Decompressor::write_sample_fasta + GenomeWriter (ragc-core MIR)
on the symbolic file system with captured stdout; the archive is a model (open/get_sample/list_samples answer from a
symbolic catalogue). For every request list within the bound, to -o and to stdout: the output equals the concatenation of
the single-sample outputs; an unknown sample makes the command return Err (fn main() -> Result: non-zero exit)."""
import z3
from mirsym.values import *
from mirsym.values import b_and, b_or, b_not
from harness.base import Instance, run_instances

CLI, CORE = "ragc-cli", "ragc-core"
NAMES = [b"a1", b"b", b"a2"]          # archive order: the two samples sharing the prefix "a" are not adjacent
LETTERS = b"ACGTNRYSWKMBDHVU"


class Getset(Instance):
    crates = ("ragc-cli", "ragc-core", "ragc-common")

    def __init__(self, name, maxreq, mode):
        Instance.__init__(self, name)
        self.maxreq, self.mode = maxreq, mode
        self.required_witnesses = ("multi", "single", "unknown", "overwrite_existing") if mode == "names" else ("multi", "single", "no_match", "overwrite_existing")
        self.bounds = {"archive": "3 samples in the order a1, b, a2, one contig each, 1..3 symbolic bases over all codes 0..15 and 30", "request": (f"every list of 1..{maxreq} names over the 3 samples + 1 unknown name (repeats allowed)" if mode == "names" else "every prefix in {a, a1, b, x, ''}"),
                       "destination": "-o file (fresh path, or an existing longer file) and stdout"}

    def setup(self, e):
        def d_open(e_, c, a):
            return ok(Opaque("decompressor"))

        def get_sample(e_, c, a):
            nm = e_.bytes_of(a[1])
            if nm not in NAMES:
                return err(Opaque("anyhow", "Sample not found"))
            i = NAMES.index(nm)
            return ok(VecObj([Agg([e_.new_bytes(b"ctg_" + nm, "String"), VecObj(list(e_.h["seqs"][i]))], ty="tuple")]))

        def list_samples(e_, c, a):
            return VecObj([e_.new_bytes(n, "String") for n in NAMES])
        e.stub(r"(^|::)Decompressor::open$", d_open)
        e.stub(r"(^|::)Decompressor::get_sample$", get_sample)
        e.stub(r"(^|::)Decompressor::list_samples$", list_samples)        # list_samples_with_prefix itself is the real code
        e.stub(r"(^|::)Decompressor::close$", lambda e_, c, a: ok(UNIT))

    def expected_for(self, e, i):
        seq = e.h["seqs"][i]
        from mirsym.models import ite_int
        out = [Int(8, 0, ord(">"))] + [Int(8, 0, b) for b in b"ctg_" + NAMES[i]] + [Int(8, 0, 10)]
        for x in seq:
            ch = Int(8, 0, ord("N"))
            for code, letter in enumerate(LETTERS):
                ch = ite_int(e.binop("Eq", x, Int(8, 0, code)), Int(8, 0, letter), ch)
            out.append(ch)
        return out + [Int(8, 0, 10)]

    def path(self, e):
        from mirsym import models_io
        e.fs = models_io.FS(); e.stdout = []
        seqs = []
        for i in range(len(NAMES)):
            n = 1 + e.choose(2, f"len{i}")
            seqs.append(e.sym_bytes(f"seq{i}", n, among=list(range(16)) + [30]))
        e.h = {"seqs": seqs}
        to_file = e.choose(2, "to_file")
        S = lambda b: VecObj([Int(8, 0, x) for x in b], "String")
        if self.mode == "names":
            k = 1 + e.choose(self.maxreq, "nreq1")
            req = [e.choose(len(NAMES) + 1, f"req{j}") for j in range(k)]
            names = [NAMES[r] if r < len(NAMES) else b"zz" for r in req]
            samples, prefix = VecObj([S(n) for n in names]), none()
            want, unknown = [r for r in req], any(r >= len(NAMES) for r in req)
        else:
            pf = [b"a", b"a1", b"b", b"x", b""][e.choose(5, "pf")]
            samples, prefix = VecObj([]), some(S(pf))
            want = [i for i, n in enumerate(NAMES) if n.startswith(pf)]; unknown = False
            e.inputs["prefix"] = pf.decode()
        out_path = b"/out/result.fa"
        output = some(S(out_path)) if to_file else none()
        pre = e.choose(2, "preexisting") if to_file else 0
        if pre:
            # the -o path already holds an older, longer result
            fd = models_io.FileData(); fd.data[:] = [Int(8, 0, ord("X"))] * 64
            e.fs.files[out_path] = fd
            e.witness("overwrite_existing")
        r = e.call_fn(CLI, "getset_command", [S(b"/in/archive.agc"), samples, prefix, output, Int(32, 0, 0)])
        if self.mode == "names":
            e.inputs["request"] = [n.decode() for n in names]
        e.witness("multi" if len(want) > 1 else "single")
        if unknown:
            e.witness("unknown")
            e.prove(r.variant == 1, "cli:error_swallowed", "getset with an unknown sample returned Ok (exit status 0)")
            return None
        if not want:
            e.witness("no_match")
            e.prove(r.variant == 1, "cli:error_swallowed", "getset with a prefix matching no sample returned Ok (exit status 0)")
            return None
        e.prove(r.variant == 0, "cli:spurious_error", "getset failed for existing samples")
        exp = []
        for i in want:
            exp += self.expected_for(e, i)
        got = list(e.fs.files[out_path].data) if to_file and out_path in e.fs.files else list(e.stdout)
        where = "-o file" if to_file else "stdout"
        e.prove(len(got) == len(exp), "cli:getset_composition", f"{where}: {len(got)} bytes written, concatenation of the {len(want)} single-sample outputs has {len(exp)}")
        e.prove(e.eq_bytes(got, exp), "cli:getset_composition", f"{where}: output differs from the concatenation of the single-sample extractions")
        return None

    def classify_panic(self, e, ex):
        return f"cli:panic:{ex.where.split('::')[-1]}:{ex.kind}", str(ex)

    def native(self, inp):
        seqs = [inp.get(f"seq{i}", [0]) for i in range(len(NAMES))]
        return "cli_getset", {"seqs": seqs, "request": inp.get("request"), "prefix": inp.get("prefix"), "to_file": bool(inp.get("to_file", 0)), "preexisting": bool(inp.get("preexisting", 0))}

    def confirm(self, viol, outs):
        return any(("panic" in o or "crash" in o or o.get("ok") is False) for o in outs.values())


class GetsetFault(Getset):
    """The -o destination cannot be written completely (first failing write at every offset of the expected output): getset must
    return Err (non-zero exit), never report success with a partial file."""
    def __init__(self, name):
        Getset.__init__(self, name, 2, "names")
        self.required_witnesses = ("fault_reported", "no_fault_ok")
        self.bounds = {"archive": "3 samples, one contig each, 1..2 symbolic bases", "request": "the two samples a1 b to an -o file", "fault": "the write covering byte phi fails, for every phi in 0..|expected output| (phi = |output| means no fault)"}

    def path(self, e):
        from mirsym import models_io
        e.fs = models_io.FS(); e.stdout = []
        seqs = []
        for i in range(len(NAMES)):
            n = 1 + e.choose(2, f"len{i}")
            seqs.append(e.sym_bytes(f"seq{i}", n, among=[0, 1, 4, 30]))
        e.h = {"seqs": seqs}
        S = lambda b: VecObj([Int(8, 0, x) for x in b], "String")
        exp = self.expected_for(e, 0) + self.expected_for(e, 1)
        phi = e.choose(len(exp) + 1, "phi")
        out_path = b"/out/result.fa"
        e.fs.fault_at = phi if phi < len(exp) else None
        e.fs.fault_path = out_path                   # only the -o destination is short of space (temporary files are elsewhere)
        r = e.call_fn(CLI, "getset_command", [S(b"/in/archive.agc"), VecObj([S(NAMES[0]), S(NAMES[1])]), none(), some(S(out_path)), Int(32, 0, 0)])
        e.inputs["request"] = [NAMES[0].decode(), NAMES[1].decode()]
        if phi == len(exp):
            e.prove(r.variant == 0, "cli:spurious_error", "getset failed without any injected fault")
            e.witness("no_fault_ok")
        else:
            e.prove(r.variant == 1, "cli:error_swallowed", f"getset returned Ok (exit status 0) although the write at offset {phi} of the -o file failed")
            e.witness("fault_reported")
        return None

    def native(self, inp):
        seqs = [inp.get(f"seq{i}", [0]) for i in range(len(NAMES))]
        return "cli_getset_fault", {"seqs": seqs, "request": inp.get("request"), "phi": inp.get("phi", 0)}

    def confirm(self, viol, outs):
        return any(("panic" in o or o.get("ok") is False) for o in outs.values())

    def concrete_cases(self, rnd):
        return []


class CreateFlags(Instance):
    """create_archive with an unsupported flag combination: exit status 0 implies that the archive exists."""
    crates = ("ragc-cli", "ragc-core", "ragc-common")
    required_witnesses = ("batch", "adaptive_or_concatenated")
    bounds = {"flags": "every combination of --batch / --adaptive / --concatenated / --cpp-agc with at least one of them set; -t 1, verbosity 0"}

    def path(self, e):
        from mirsym import models_io
        e.fs = models_io.FS()
        S = lambda b: VecObj([Int(8, 0, x) for x in b], "String")
        batch, adaptive, concat, cpp = (e.sym_bool(n) for n in ("batch", "adaptive", "concatenated", "cpp_agc"))
        e.assume(b_or(b_or(batch, adaptive), b_or(concat, cpp)))
        out = b"/out/new.agc"
        r = e.call_fn(CLI, "create_archive", [S(out), VecObj([S(b"/in/a.fa")]), Int(32, 0, 21), Int(32, 0, 1000), Int(32, 0, 20), Int(32, 0, 50), Int(32, 1, 17), Int(32, 0, 0),
                                              adaptive, concat, some(Int(64, 0, 1)), batch, e.str_slice(b"2G"), 0.0, cpp])
        if e.feasible(zbool_(batch)):
            e.witness("batch")
        e.witness("adaptive_or_concatenated")
        if r.variant == 0:
            e.prove(out in e.fs.files and len(e.fs.files[out].data) > 0, "cli:create_success_without_archive",
                    "create returned Ok (exit status 0) for this flag combination but wrote no archive")
        return None

    def classify_panic(self, e, ex):
        return f"cli:panic:{ex.where.split('::')[-1]}:{ex.kind}", str(ex)

    def native(self, inp):
        return "cli_create_flags", {"flag_" + k: bool(inp.get(k)) for k in ("batch", "adaptive", "concatenated", "cpp_agc")}

    def confirm(self, viol, outs):
        return any(("panic" in o or o.get("ok") is False) for o in outs.values())


def zbool_(b):
    import z3 as _z3
    return b if not isinstance(b, bool) else _z3.BoolVal(b)


INSTANCES = {}


def _reg(i):
    INSTANCES[i.name] = i
    return i


QUICK = [_reg(GetsetFault("getset_fault")).name, _reg(Getset("names2", 2, "names")).name, _reg(Getset("prefix", 0, "prefix")).name, _reg(CreateFlags("create_flags")).name]
THOROUGH = ["getset_fault", _reg(Getset("T_names3", 3, "names")).name, "prefix", "create_flags"]


# archive level, through the real CLI create path (harness/cli_create.py)
from harness import cli_create as _cc
for _n in ['T_create_two_t2_p1', 'T_create_two_t3', 'create_pan_t1', 'create_pan_t2', 'create_two_t1', 'create_two_t2']:
    INSTANCES[_n] = _cc.INSTANCES[_n]
QUICK += ['create_two_t1', 'create_two_t2', 'create_pan_t1']; THOROUGH += ['create_two_t1', 'create_two_t2', 'create_pan_t1', 'create_pan_t2']


def run(ctx):
    insts = [INSTANCES[n] for n in (QUICK if ctx["tier"] == "quick" else THOROUGH)]
    return run_instances("C17", "harness.C17", insts, ctx,
                         assumptions=["the archive is a model: Decompressor::open/get_sample/list_samples/close answer from a symbolic catalogue (reader correctness: C07/C08)",
                                      "fn main() -> Result maps Err to a non-zero exit status (std); clap parsing, create's flag dispatch and process exit plumbing are outside this check"])
