"""C16 — every record with at least one base is parsed (any FASTA text); unknown letters become code 30.
E2 (mirsym) over the real GenomeIO record reader MIR on symbolic FASTA text, against an independent reference parser."""
import z3
from mirsym.values import *
from mirsym.values import b_and, b_or, b_not
from harness.base import Instance, run_instances
from harness.fasta_common import *

ALPHA = [ord(c) for c in ">\n\r AcNxR1-"]


class Parse(Instance):
    def __init__(self, name, maxlen, alpha, starts_with_header=False):
        Instance.__init__(self, name)
        self.maxlen, self.alpha, self.swh = maxlen, alpha, starts_with_header
        self.required_witnesses = ("one_record", "no_record") + (("two_records",) if maxlen >= 9 else ())
        self.bounds = {"text": f"every byte string of length 0..{maxlen} over {[chr(c) for c in alpha]}" + (" starting with '>'" if starts_with_header else "")}

    def path(self, e):
        n = e.choose(self.maxlen + 1, "n")
        text = e.sym_bytes("text", n, among=self.alpha)
        if self.swh and n:
            e.assume(e.binop("Eq", text[0], Int(8, 0, ord(">"))))
        got, status = parse_all(e, text)
        if e.concrete is not None:
            return {"records": [[[x.v for x in h], [x.v for x in s]] for h, s in got], "status": status}
        e.prove(status != "more", "fasta:runaway", "reader returned more records than lines")
        if status == "err":
            return None          # an error value is an acceptable outcome (create fails)
        if n and not e.branch(e.binop("Eq", text[0], Int(8, 0, ord(">")))):
            return None          # text that does not start with a header line is not FASTA: outside the claim
        exp, leading = reference_parse(e, text)
        for h, s_ in exp:
            if len(h) == 0 and len(s_) > 0:
                return None      # a record without a name is ill-formed: outside the claim
        with_bases = [(h, s) for h, s in exp if len(s) > 0]
        e.witness({0: "no_record", 1: "one_record"}.get(len(with_bases), "two_records"))
        got = [(h, s_) for h, s_ in got if len(s_) > 0]       # records without bases may be kept or skipped
        e.prove(len(got) >= len(with_bases), "fasta:record_dropped",
                f"{len(with_bases)} record(s) have bases but the reader returned {len(got)} (an empty record / blank line ended parsing silently)")
        e.prove(len(got) == len(with_bases), "fasta:extra_record", f"reader returned {len(got)} records with bases, text has {len(with_bases)}")
        for i, ((gh, gs), (xh, xs)) in enumerate(zip(got, with_bases)):
            e.prove(len(gh) == len(xh) and e.eq_bytes(gh, xh), "fasta:header", f"header of record {i} differs from the trimmed header line")
            e.prove(len(gs) == len(xs), "fasta:sequence", f"record {i}: {len(gs)} codes returned, {len(xs)} letters in the text")
            e.prove(e.eq_bytes(gs, xs), "fasta:sequence", f"record {i}: codes differ from the documented normalisation")
        return None

    def classify_panic(self, e, ex):
        return f"fasta:panic:{ex.where.split('::')[-1]}:{ex.kind}", str(ex)

    def native(self, inp):
        return "fasta_parse", {"text": inp["text"]}

    def confirm(self, viol, outs):
        # native side re-states the expectation with a plain reference parser
        return any(("panic" in o or "crash" in o or o.get("ok") is False) for o in outs.values())

    def concrete_cases(self, rnd):
        out = []
        for _ in range(40):
            n = rnd.randrange(self.maxlen + 1)
            t = [rnd.choice(self.alpha) for _ in range(n)]
            if n and (self.swh or rnd.random() < 0.7):
                t[0] = ord(">")
            out.append({"n": n, "text": t})
        return out

    def compare(self, s, n):
        return s["records"] == n.get("records") and s["status"] == n.get("status")


INSTANCES = {}


def _reg(i):
    INSTANCES[i.name] = i
    return i


QUICK = [_reg(Parse("text6", 6, ALPHA)).name, _reg(Parse("hdr9", 9, [ord(c) for c in ">\nAx"], starts_with_header=True)).name]
THOROUGH = [_reg(Parse("T_text9", 9, ALPHA)).name, _reg(Parse("T_hdr11", 11, [ord(c) for c in ">\n\r AcxN-"], starts_with_header=True)).name]


# archive level, through the real CLI create path (harness/cli_create.py)
from harness import cli_create as _cc
for _n in ['T_anytext4', 'anytext3']:
    INSTANCES[_n] = _cc.INSTANCES[_n]
QUICK += ['anytext3']; THOROUGH += ['anytext3', 'T_anytext4']


# past the parser: unusual symbols through grouping, LZ coding and packing — two samples sharing a run of N inside a splitter-bounded
# segment, the second with one substituted base at every position (every code A,C,G,T,N), through the real pipeline
from harness import pipe as _pipe
INSTANCES["nrun_subst_multi_t1"] = _pipe.INSTANCES["nrun_subst_multi_t1"]
QUICK.append("nrun_subst_multi_t1"); THOROUGH.append("nrun_subst_multi_t1")


def run(ctx):
    insts = [INSTANCES[n] for n in (QUICK if ctx["tier"] == "quick" else THOROUGH)]
    return run_instances("C16", "harness.C16", insts, ctx,
                         assumptions=["input alphabet: '>', LF, CR, space, letters (IUPAC and not, both cases), digits, '-' (the punctuation bytes 91..96 and 123..127 are outside the property's input space)",
                                      "text that does not start with a header line ('>') and records whose name is empty are ill-formed FASTA (outside the claim)", "records without bases may be kept (as empty contigs) or skipped",
                                      "code 30 through LZ is C09, through tuple packing C12"])
