"""C20, E2 part — "a non-ACGT symbol restarts the window": the real enumerate_kmers (kmer_extract.rs) over every contig
with ambiguity codes within the bound must return exactly the canonical values of the windows that contain only A/C/G/T,
in contig order, each equal to the independently packed min(forward, reverse complement)."""
import z3
from mirsym.values import *
from mirsym.values import b_and, b_or, b_not
from harness.base import Instance, run_instances
from harness.C10 import pack_window

CORE = "ragc-core"


class EnumKmers(Instance):
    crates = ("ragc-core",)

    def __init__(self, name, k, maxlen, alpha, prefix=None):
        Instance.__init__(self, name)
        self.k, self.maxlen, self.alpha, self.prefix = k, maxlen, alpha, prefix or []
        self.required_witnesses = ("restart", "kmer_after_restart", "no_restart")
        self.bounds = {"function": "enumerate_kmers (Kmer::new/insert/reset/is_full/data underneath)", "k": k,
                       "contig": f"every contig of length 0..{maxlen} over codes {alpha}" + (f" after the concrete prefix of {len(self.prefix)} bases" if prefix else "")}

    def path(self, e):
        k = self.k
        n = e.choose(self.maxlen + 1, "n")
        c = [Int(8, 0, x) for x in self.prefix] + e.sym_bytes("c", n, among=self.alpha)
        n = len(c)
        r = e.call_fn(CORE, "enumerate_kmers", [Ref(Cell(VecObj(list(c)))), Int(64, 0, k)])
        got = e.vec_items(r)
        if e.concrete is not None:
            return {"kmers": [str(x.v) for x in got]}
        # reference: a window is emitted iff all its k codes are < 4 (decided per path: the code branched on base > 3)
        bad = [e.branch(e.binop("Gt", b, Int(8, 0, 3))) for b in c]
        exp = []
        for p in range(k - 1, n):
            if not any(bad[p - k + 1:p + 1]):
                d, rr, can, le = pack_window(e, c[p - k + 1:p + 1], k)
                exp.append(can)
                if any(bad[:p - k + 1]):
                    e.witness("kmer_after_restart")
        e.witness("restart" if any(bad) else "no_restart")
        e.prove(len(got) == len(exp), "kmer:restart:window_count", f"enumerate_kmers returned {len(got)} k-mers, {len(exp)} windows consist of A/C/G/T only (k={k}, n={n})")
        for i, (g, x) in enumerate(zip(got, exp)):
            e.prove(e.binop("Eq", g, x), "kmer:restart:window_value", f"k-mer #{i} differs from the independently packed canonical value of its window")
        return None

    def classify_panic(self, e, ex):
        return f"kmer:restart:panic:{ex.where.split('::')[-1]}:{ex.kind}", str(ex)

    def native(self, inp):
        return "enum_kmers", {"k": self.k, "seq": self.prefix + list(inp.get("c", []))}

    def confirm(self, viol, outs):
        # native result vs the reference computed concretely here
        k = self.k
        seq = self.prefix + list(viol["inputs"].get("c", []))
        exp = []
        for p in range(k - 1, len(seq)):
            w = seq[p - k + 1:p + 1]
            if all(b < 4 for b in w):
                f = 0; r = 0
                for j in range(k):
                    f |= w[j] << (62 - 2 * j); r |= (3 - w[k - 1 - j]) << (62 - 2 * j)
                exp.append(str(min(f, r)))
        return any(("panic" in o or "crash" in o or o.get("kmers") != exp) for o in outs.values())

    def concrete_cases(self, rnd):
        out = []
        for _ in range(12):
            n = rnd.randrange(self.maxlen + 1)
            out.append({"n": n, "c": [rnd.choice(self.alpha) for _ in range(n)]})
        return out

    def compare(self, s, n):
        return s["kmers"] == n.get("kmers")


INSTANCES = {}


def _reg(i):
    INSTANCES[i.name] = i
    return i


AL = [0, 1, 2, 3, 4, 15]
P31 = [(i * 7 + i // 3) % 4 for i in range(29)]
QUICK = [_reg(EnumKmers("enum_k1", 1, 4, AL)).name, _reg(EnumKmers("enum_k2", 2, 5, AL)).name, _reg(EnumKmers("enum_k3", 3, 6, AL)).name,
         _reg(EnumKmers("enum_k31", 31, 5, [0, 1, 2, 3, 4], prefix=P31 + [4] + P31)).name]
INSTANCES["enum_k31"].required_witnesses = ("restart", "kmer_after_restart")
THOROUGH = [_reg(EnumKmers("T_enum_k2", 2, 7, AL)).name, _reg(EnumKmers("T_enum_k3", 3, 8, AL)).name, _reg(EnumKmers("T_enum_k4", 4, 8, AL)).name,
            _reg(EnumKmers("T_enum_k32", 32, 5, [0, 1, 2, 3, 4], prefix=P31 + [3, 4] + P31 + [2])).name, "enum_k1", "enum_k31"]
INSTANCES["T_enum_k32"].required_witnesses = ("restart", "kmer_after_restart")


def run(ctx):
    insts = [INSTANCES[n] for n in (QUICK if ctx["tier"] == "quick" else THOROUGH)]
    return run_instances("C20", "harness.C20e", insts, ctx, assumptions=["input codes above 3 are the non-ACGT symbols (N = 4, IUPAC up to 15)"])
