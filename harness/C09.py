"""C09 — LZ-diff decode inverts encode. E2 (mirsym) over the real LZDiff::{new,prepare,encode,decode} MIR."""
import z3
from mirsym.values import *
from mirsym.values import b_and, b_or, b_not
from harness.base import Instance, run_instances

CORE = "ragc-core"
SIGMA_N = [0, 1, 2, 3, 4]
SIGMA_30 = [0, 1, 2, 3, 4, 30]


def lz_roundtrip(e, ref, tgt, mm, check_estimate=False):
    """Run the real prepare/encode/decode on engine byte lists; assert the C09 relations. Returns (enc, dec)."""
    lz = e.call_fn(CORE, "LZDiff::new", [Int(32, 0, mm)])
    lzc = Cell(lz)
    e.call_fn(CORE, "LZDiff::prepare", [Ref(lzc), Ref(Cell(VecObj(list(ref))))])
    enc = e.call_fn(CORE, "LZDiff::encode", [Ref(lzc), Ref(Cell(VecObj(list(tgt))))])
    encb = e.vec_items(enc)
    for x in encb:
        e.prove(e.binop("Ne", x, Int(8, 0, 0xFF)), "lz:separator_in_encoding", "encoding contains the pack separator 0xFF")
    for x in encb:
        if x.conc():
            if x.v == ord("."):
                e.witness("match")
            elif x.v == ord("!"):
                e.witness("bang")
            elif x.v == 30:
                e.witness("nrun")
            elif x.v == ord(","):
                e.witness("match_with_len")
    if not encb:
        e.witness("empty")
        e.prove(len(tgt) == len(ref), "lz:empty_encoding_for_different_target", "empty encoding but |target| != |reference|")
        e.prove(e.eq_bytes(tgt, ref), "lz:empty_encoding_for_different_target", "empty encoding but target != reference")
        return encb, list(ref)
    dec = e.call_fn(CORE, "LZDiff::decode", [Ref(lzc), e.slice_of(encb)])
    d = e.vec_items(dec)
    e.prove(len(d) == len(tgt), "lz:roundtrip", f"decoded length {len(d)} != target length {len(tgt)}")
    e.prove(e.eq_bytes(d, tgt), "lz:roundtrip", "decode(encode(target)) != target")
    return encb, d


class LZSym(Instance):
    """Both sides fully symbolic."""
    def __init__(self, name, max_ref, max_tgt, mms, ref_alpha, tgt_alpha, required=()):
        Instance.__init__(self, name)
        self.max_ref, self.max_tgt, self.mms, self.ra, self.ta = max_ref, max_tgt, mms, ref_alpha, tgt_alpha
        self.required_witnesses = required
        self.bounds = {"reference": f"every string of length 0..{max_ref} over {ref_alpha}", "target": f"every string of length 1..{max_tgt} over {tgt_alpha}",
                       "min_match_len": mms}

    def path(self, e):
        mm = self.mms[e.choose(len(self.mms), "mm_i")]
        nr = e.choose(self.max_ref + 1, "nr")
        nt = 1 + e.choose(self.max_tgt, "nt1")
        ref = e.sym_bytes("ref", nr, among=self.ra)
        tgt = e.sym_bytes("tgt", nt, among=self.ta)
        e.inputs["mm"] = mm
        enc, dec = lz_roundtrip(e, ref, tgt, mm)
        return {"enc": [e.eval_concrete(x) for x in enc], "dec": [e.eval_concrete(x) for x in dec]}

    def classify_panic(self, e, ex):
        return f"lz:panic:{ex.where.split('::')[-1]}:{ex.kind}", str(ex)

    def native(self, inp):
        mm = inp.get("mm", self.mms[inp.get("mm_i", 0)] if "mm_i" in inp else self.mms[0])
        return "lz_roundtrip", {"ref": inp["ref"], "tgt": inp["tgt"], "mm": mm}

    def confirm(self, viol, outs):
        for o in outs.values():
            if "panic" in o or "crash" in o or o.get("ok") is False:
                return True
        return False

    def concrete_cases(self, rnd):
        out = []
        for _ in range(40):
            nr = rnd.randrange(self.max_ref + 1); nt = 1 + rnd.randrange(self.max_tgt)
            ref = [rnd.choice(self.ra[:4]) for _ in range(nr)]
            tgt = [rnd.choice(self.ta[:5]) for _ in range(nt)]
            if nr >= 4 and rnd.random() < 0.6:
                tgt = (ref + ref)[rnd.randrange(nr):][:nt] or tgt
            mi = rnd.randrange(len(self.mms))
            out.append({"mm_i": mi, "nr": len(ref), "nt1": len(tgt) - 1, "ref": ref, "tgt": tgt, "mm": self.mms[mi]})
        return out

    def compare(self, s, n):
        return s["enc"] == n.get("enc") and s["dec"] == n.get("dec")


class LZShape(LZSym):
    """Concrete (seeded) reference; the target is derived from it by a symbolic edit script:
    kind 'free'   : every target of length 1..max_tgt over the alphabet (reference is a parameter),
    kind 'subst'  : reference with 1..2 substitutions (positions enumerated, values symbolic),
    kind 'window' : symbolic literal prefix (0..2) ++ reference[s..e] ++ symbolic suffix (0..1), all s<=e,
    kind 'indel'  : reference[..p] ++ symbolic insertion (0..2) ++ reference[p+d..], d in 0..2."""
    def __init__(self, name, ref, kind, mms, tgt_alpha, max_tgt=7, required=(), small=False):
        Instance.__init__(self, name)
        self.ref, self.kind, self.mms, self.ta, self.max_tgt = list(ref), kind, mms, tgt_alpha, max_tgt
        self.small = small          # quick tier: at most one free symbol per edit
        self.required_witnesses = required
        self.bounds = {"reference": f"concrete {self.ref}", "target_shape": kind, "alphabet_of_symbolic_symbols": tgt_alpha, "min_match_len": mms,
                       "max_free_target": max_tgt}

    def build_target(self, e):
        ref = [Int(8, 0, x) for x in self.ref]; n = len(ref)
        if self.kind == "free":
            nt = 1 + e.choose(self.max_tgt, "nt1")
            return e.sym_bytes("tgt", nt, among=self.ta)
        if self.kind == "subst":
            two = e.choose(1 if self.small else 2, "two")
            p1 = e.choose(n, "p1")
            t = list(ref)
            v = e.sym_bytes("v", 1 + two, among=self.ta)
            t[p1] = v[0]
            if two:
                p2 = p1 + 1 + e.choose(max(n - p1 - 1, 1), "p2d")
                if p2 >= n:
                    raise Infeasible()
                t[p2] = v[1]
            return t
        if self.kind == "window":
            s = e.choose(n + 1, "s")
            ln = e.choose(n - s + 1, "len")
            npre = e.choose(2 if self.small else 3, "npre"); nsuf = e.choose(1 if self.small else 2, "nsuf")
            pre = e.sym_bytes("pre", npre, among=self.ta); suf = e.sym_bytes("suf", nsuf, among=self.ta)
            t = pre + ref[s:s + ln] + suf
            if not t:
                raise Infeasible()
            return t
        if self.kind == "indel":
            p = e.choose(n + 1, "p"); d = e.choose(2 if self.small else 3, "d"); ni = e.choose(2 if self.small else 3, "ni")
            ins = e.sym_bytes("ins", ni, among=self.ta)
            t = ref[:p] + ins + ref[min(p + d, n):]
            if not t:
                raise Infeasible()
            return t
        raise ValueError(self.kind)

    def path(self, e):
        mm = self.mms[e.choose(len(self.mms), "mm_i")]
        tgt = self.build_target(e)
        e.inputs["mm"] = mm; e.inputs["tgt_full"] = tgt; e.inputs["ref"] = self.ref
        enc, dec = lz_roundtrip(e, [Int(8, 0, x) for x in self.ref], tgt, mm)
        return {"enc": [e.eval_concrete(x) for x in enc], "dec": [e.eval_concrete(x) for x in dec]}

    def concrete_target(self, c):
        ref, n = self.ref, len(self.ref)
        if self.kind == "free":
            return list(c["tgt"])
        if self.kind == "subst":
            t = list(ref); t[c["p1"]] = c["v"][0]
            if c.get("two"):
                t[c["p1"] + 1 + c["p2d"]] = c["v"][1]
            return t
        if self.kind == "window":
            return list(c["pre"]) + ref[c["s"]:c["s"] + c["len"]] + list(c["suf"])
        return ref[:c["p"]] + list(c["ins"]) + ref[min(c["p"] + c["d"], n):]

    def native(self, inp):
        mm = inp.get("mm", self.mms[inp.get("mm_i", 0)])
        tgt = inp["tgt_full"] if "tgt_full" in inp else self.concrete_target(inp)
        return "lz_roundtrip", {"ref": self.ref, "tgt": tgt, "mm": mm}

    def concrete_cases(self, rnd):
        out = []
        n = len(self.ref)
        for _ in range(30):
            mi = rnd.randrange(len(self.mms)); c = {"mm_i": mi}
            sym = lambda k: [rnd.choice(self.ta) for _ in range(k)]
            if self.kind == "free":
                nt = 1 + rnd.randrange(self.max_tgt); c.update(nt1=nt - 1, tgt=sym(nt))
            elif self.kind == "subst":
                two = rnd.randrange(1 if self.small else 2); p1 = rnd.randrange(n - 1 if two else n)
                c.update(two=two, p1=p1, v=sym(1 + two))
                if two:
                    c["p2d"] = rnd.randrange(n - p1 - 1)
            elif self.kind == "window":
                s_ = rnd.randrange(n + 1); ln = rnd.randrange(n - s_ + 1); npre = rnd.randrange(2 if self.small else 3); nsuf = rnd.randrange(1 if self.small else 2)
                if ln + npre + nsuf == 0:
                    npre = 1
                c.update(s=s_, len=ln, npre=npre, nsuf=nsuf, pre=sym(npre), suf=sym(nsuf))
            else:
                p = rnd.randrange(n + 1); d = rnd.randrange(2 if self.small else 3); ni = rnd.randrange(2 if self.small else 3)
                c.update(p=p, d=d, ni=ni, ins=sym(ni))
            out.append(c)
        return out


def shape_refs(seed):
    """Seeded family of references: plain random, with an N-run, with a repeat, with a tandem tail."""
    import random
    r = random.Random(1000 + seed)
    acgt = lambda k: [r.randrange(4) for _ in range(k)]
    a = acgt(14)
    b = acgt(5) + [4] * (4 + r.randrange(2)) + acgt(7)
    u = acgt(6); c = u + acgt(3) + u + acgt(2)
    d = acgt(4) + [4] + acgt(9)
    return {"rand": a, "nrun": b, "repeat": c, "n1": d}


INSTANCES = {}


def _reg(i):
    INSTANCES[i.name] = i
    return i


import os
_SEED = int(os.environ.get("VERIF_SEED", "0") or 0)
_reg(LZSym("sym_q", 4, 4, [4, 5], SIGMA_N, SIGMA_30))
_reg(LZSym("sym_q5", 4, 5, [4, 5], SIGMA_N, SIGMA_30))
_reg(LZSym("sym_t", 5, 5, [4, 5, 6], SIGMA_N, SIGMA_30))
QUICK = ["sym_q"]; THOROUGH = ["sym_q5", "sym_t"]
for _nm, _ref in shape_refs(_SEED).items():
    for _kind in ("free", "subst", "window", "indel"):
        if _kind != "free" and _nm in ("rand", "nrun"):
            _reg(LZShape(f"{_kind}_{_nm}", _ref, _kind, [5], SIGMA_30, small=True))
            QUICK.append(f"{_kind}_{_nm}")
        _reg(LZShape(f"T_{_kind}_{_nm}", _ref, _kind, [4, 5, 6, 8], SIGMA_30 + [15], max_tgt=7))
        THOROUGH.append(f"T_{_kind}_{_nm}")


def run(ctx):
    insts = [INSTANCES[n] for n in (QUICK if ctx["tier"] == "quick" else THOROUGH)]
    return run_instances("C09", "harness.C09", insts, ctx, assumptions=[])
