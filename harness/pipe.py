"""Whole-pipeline driver shared by C01, C02, C04, C05 and C15: the REAL StreamingQueueCompressor is built by its real
constructor (which spawns the real worker_thread closures — here simulated threads), contigs go through the real push(),
drain(), sync_and_flush() and finalize() (sync tokens, barrier rounds, classification, grouping, LZ, packs, metadata,
footer) on the file-system model, and the result is read back by the real Decompressor. ZSTD is the lossless stub.
The thread scheduler explores interleavings at every Mutex/RwLock/Condvar/Barrier/sleep point, bounded by a preemption
bound (number of times a runnable thread is descheduled in favour of another); blocking switches are always explored."""
import z3
from mirsym.values import *
from mirsym.values import b_and, b_or, b_not
from mirsym.sched import Sched, MutexObj
from mirsym.models_coll import MapObj
from harness.base import Instance, run_instances

CORE, COMMON = "ragc-core", "ragc-common"
PATH = b"/sym/pipe.agc"
S = lambda b: VecObj([Int(8, 0, x) for x in b], "String")


def mk_config(e, **over):
    cfgn = e.p.structs["agc_compressor.rs:StreamingQueueConfig"]
    cfg = e.call_fn(CORE, "<StreamingQueueConfig as Default>::default", [])
    vals = dict(k=Int(64, 0, 3), segment_size=Int(64, 0, 4), min_match_len=Int(64, 0, 4), compression_level=Int(32, 1, 17), num_threads=Int(64, 0, 1),
                queue_capacity=Int(64, 0, 1 << 20), verbosity=Int(64, 0, 0))
    vals.update(over)
    for n, v in vals.items():
        cfg.f[cfgn.index(n)] = v
    return cfg


def kmer_canon(codes):
    """canonical k-mer value as ragc packs it (left-aligned 2-bit), independent restatement"""
    f = 0; r = 0
    for i, c in enumerate(codes):
        f |= c << (62 - 2 * i)
    for i, c in enumerate(reversed(codes)):
        r |= (3 - c) << (62 - 2 * i)
    return min(f, r)


class Pipeline(Instance):
    """samples: [(sample name, [(contig name, [codes])])]; driver: 'api' (push* finalize), 'multi' (CLI multi-file mode: reference sample,
    drain, sync_and_flush, other samples, finalize), 'single' (CLI single-file mode: drain after the first sample; concatenated_genomes with
    a sync round every pack_size contigs)."""
    crates = ("ragc-core", "ragc-common")

    def __init__(self, name, threads, samples, k=3, splitters=(), preempt=1, driver="api", view="roundtrip", qcap=1 << 20, zstd="token", sym=(), sym_alpha=(0, 1, 2, 3, 4, 7, 30), edits=(), alts=None, cross=False, **cfg):
        Instance.__init__(self, name)
        self.threads, self.samples, self.k, self.splitters, self.cfg, self.preempt = threads, samples, k, splitters, cfg, preempt
        self.driver, self.view, self.qcap, self.zstd = driver, view, qcap, zstd
        self.sym, self.sym_alpha = tuple(sym), tuple(sym_alpha)      # (sample index, contig index, position): bases that are symbolic over sym_alpha
        self.cross = cross               # engine-vs-native cross-check of one concrete run (descriptor table + extracted samples)
        self.alts = alts                 # [(samples, splitters)]: the input set itself is an engine choice (one alternative per path)
        self.edits = tuple(edits)        # (kind in subst/del/ins/rc, sample index, contig index): one edit at EVERY position (engine choice) with a symbolic base
        self.native_timeout = 2400       # real multi-threaded runs with level-19 zstd are slow in the dev profile; hangs are caught by the in-process watchdog
        self.native_profile = "release" if driver == "single" else "dev"      # the dev build panics in single-file mode (known finding F7)
        self.overflow_checks = driver != "single"      # single-file mode relies on wrapping i32 priorities (known finding F7): release semantics there
        self.required_witnesses = ("finalized",)
        self.max_wall = 7200
        self.n_concrete = 1
        self.bounds = {"worker threads": threads, "input": f"{len(samples)} sample(s), contigs {[len(d) for _, cs in samples for _, d in cs]} bases (concrete), k={k}, {len(splitters)} splitter k-mers",
                       "symbolic bases": [f"sample {si} contig {ci} position {pos} over codes {list(sym_alpha)}" for si, ci, pos in sym],
                       "symbolic edits": [f"one {kind} in sample {si} contig {ci} at every position" + ("" if kind in ("del", "rc", "delrange") else f" with every code of {list(sym_alpha)}") for kind, si, ci in edits], "driver": driver, "queue capacity (bytes)": qcap, "zstd stub": zstd + " (deterministic lossless codec; 'token' always shrinks, 'store' never does)", "config": {n: (v.v if hasattr(v, 'v') else v) for n, v in cfg.items()},
                       "schedules": f"every interleaving of producer and workers at lock/wait/barrier/sleep points with at most {preempt} preemption(s); blocking switches unbounded"}

    def setup(self, e):
        # observe (not replace) the split decision of the barrier-time classification: the real function runs, its verdict becomes a witness
        target = [f for (cr, name), f in e.p.funcs.items() if cr == CORE and name.endswith("find_split_by_cost") and "verif_hooks" not in name]
        if target:
            def spy(e_, c, a, _f=target[0]):
                r = e_.run_func(_f, a, c)
                e_.witness("decision:" + e_.p.enums["SplitDecision"][r.variant])
                return r
            e.stub(r"(^|::)find_split_by_cost$", spy)

    # ---------------------------------------------------------------- driving the real API
    def pick_alt(self, e):
        if self.alts and "alt" not in e.h:
            i = e.choose(len(self.alts), "alt"); e.h["alt"] = i
            self.samples, self.splitters = self.alts[i]

    def build(self, e, sched=True):
        from mirsym import models_io
        self.pick_alt(e)
        e.fs = models_io.FS()
        e.h["zstd_mode"] = self.zstd          # the codec stub must be a function of its input here (one frame length per call, no free choice)
        s = Sched(e, max_switches=50000, max_preempt=self.preempt if sched else 0)
        s.deterministic = not sched
        e.sched = s
        over = dict(k=Int(64, 0, self.k), num_threads=Int(64, 0, self.threads), queue_capacity=Int(64, 0, self.qcap))
        if self.driver == "single":
            over["concatenated_genomes"] = True
        over.update(self.cfg)
        cfg = mk_config(e, **over)
        spl = MapObj(False, True)
        for w in self.splitters:
            spl.items.append([Int(64, 0, kmer_canon(w)), UNIT])
        r = e.call_fn(CORE, "StreamingQueueCompressor::with_splitters", [e.str_slice(PATH), cfg, spl])
        e.prove(r.variant == 0, "pipe:create_failed", "with_splitters returned Err")
        return Cell(r.f[0])

    def sym_data(self, e):
        """the samples with the symbolic positions replaced by fresh symbolic bases (once per path)"""
        if "sym_samples" not in e.h:
            out = [(sn, [(cn, [x if isinstance(x, Int) else Int(8, 0, x) for x in d]) for cn, d in cs]) for sn, cs in self.samples]
            for j, (si, ci, pos) in enumerate(self.sym):
                out[si][1][ci][1][pos] = e.sym_bytes(f"b{j}", 1, among=list(self.sym_alpha))[0]
            e.h["sym_list"] = [out[si][1][ci][1][pos] for si, ci, pos in self.sym]
            for j, (kind, si, ci) in enumerate(self.edits):
                d = out[si][1][ci][1]
                if kind == "rc":
                    if e.choose(2, f"rc{j}"):
                        d[:] = [Int(8, 0, 3 - x.v if x.v < 4 else x.v) for x in reversed(d)]
                    continue
                if kind == "delrange":
                    # delete a whole range (a deletion that can remove a splitter together with the body of the neighbouring segment)
                    ln = 2 + e.choose(7, f"len{j}")
                    pos = e.choose(max(len(d) - ln, 0) + 1, f"pos{j}")
                    del d[pos:pos + ln]
                    continue
                pos = e.choose(len(d) + (1 if kind == "ins" else 0), f"pos{j}")
                if kind == "del":
                    del d[pos]
                    continue
                b = e.sym_bytes(f"e{j}", 1, among=list(self.sym_alpha))[0]
                e.h["sym_list"].append(b)
                if kind == "subst":
                    d[pos] = b
                else:
                    d.insert(pos, b)
            e.h["sym_samples"] = out
        return e.h["sym_samples"]

    def pin_symbols(self, e):
        """decide the value of every symbolic base on this path (small alphabet: by branching), so results can be read concretely"""
        vals = []
        self.sym_data(e)
        for b in e.h["sym_list"]:
            v = None
            for a in self.sym_alpha:
                if e.branch(e.binop("Eq", b, Int(8, 0, a))):
                    v = a; break
            vals.append(v)
        e.inputs["sym_values"] = vals
        return vals

    def push(self, e, comp, sname, cname, data):
        r = e.call_fn(CORE, "StreamingQueueCompressor::push", [Ref(comp), S(sname), S(cname), VecObj([x if isinstance(x, Int) else Int(8, 0, x) for x in data])])
        e.prove(r.variant == 0, "pipe:push_failed", "push returned Err")

    def drive(self, e, comp):
        for si, (sname, contigs) in enumerate(self.sym_data(e) if (self.sym or self.edits) else self.samples):
            if si == 1 and self.driver == "single":
                r = e.call_fn(CORE, "StreamingQueueCompressor::drain", [Ref(comp)]); e.prove(r.variant == 0, "pipe:drain_failed", "drain returned Err")
                e.witness("drained")
            for cname, data in contigs:
                self.push(e, comp, sname, cname, data)
            if si == 0 and self.driver == "multi":
                r = e.call_fn(CORE, "StreamingQueueCompressor::drain", [Ref(comp)]); e.prove(r.variant == 0, "pipe:drain_failed", "drain returned Err")
                r = e.call_fn(CORE, "StreamingQueueCompressor::sync_and_flush", [Ref(comp), e.str_slice(b"AAA#0_REF")]); e.prove(r.variant == 0, "pipe:sync_failed", "sync_and_flush returned Err")
                e.witness("drained")
        return e.call_fn(CORE, "StreamingQueueCompressor::finalize", [comp.v])

    def run_pipeline(self, e, sched=True):
        comp = self.build(e, sched)
        r = self.drive(e, comp)
        e.sched.join_all()
        self._last_sched = e.sched
        return r

    # ---------------------------------------------------------------- reading back
    def read_back(self, e):
        e.sched = None
        cfg = e.struct("DecompressorConfig", verbosity=Int(32, 0, 0))
        r = e.call_fn(CORE, "Decompressor::open", [e.str_slice(PATH), cfg])
        e.prove(r.variant == 0, "pipe:open_failed", "Decompressor::open failed on the archive finalize() reported as written")
        h = Cell(r.f[0])
        names = e.call_fn(CORE, "Decompressor::list_samples", [Ref(h)])
        got = [bytes(x.v for x in e.vec_items(n)) for n in e.vec_items(names)]
        exp = []
        for sname, _ in self.samples:
            if sname not in exp:
                exp.append(sname)
        e.prove(got == exp, "pipe:sample_list", f"archive lists {got}, pushed {exp}")
        ev = e.eval_concrete
        src = self.sym_data(e) if (self.sym or self.edits) else self.samples
        for sname in exp:
            r = e.call_fn(CORE, "Decompressor::get_sample", [Ref(h), e.str_slice(sname)])
            e.prove(r.variant == 0, "pipe:extract_failed", f"get_sample({sname}) failed")
            cs = [(bytes(ev(x) for x in e.vec_items(t.f[0])), [ev(x) for x in e.vec_items(t.f[1])]) for t in e.vec_items(r.f[0])]
            want = [(c, [ev(x) if isinstance(x, Int) else x for x in d]) for sn, contigs in src if sn == sname for c, d in contigs]
            e.prove(cs == want, "pipe:roundtrip", f"sample {sname.decode()}: extracted {cs} != pushed {want}")
        e.witness("extracted")

    def independent_decode(self, e):
        """C02: the archive as a reader built only from the format rules sees it (harness/agcread.py) must give back every sample"""
        from harness import agcread
        tab_i = e.h.get("zstd_table", []); tab_h = e.h.get("zstd_hash_table", {})

        def zd(frame):
            frame = list(frame)
            if not frame:
                raise agcread.FormatError("zstd: empty frame")
            m = frame[0]
            if m == 0x28:
                return frame[1:]
            if m == 0x29 and len(frame) >= 3:
                n = frame[1] + 256 * frame[2]
                return frame[3:3 + n]
            if m == 0x2A and len(frame) == 2 and frame[1] < len(tab_i):
                return [e.eval_concrete(x) for x in tab_i[frame[1]]]
            if m == 0x2B and len(frame) == 4 and bytes(frame[1:4]) in tab_h:
                return list(tab_h[bytes(frame[1:4])])
            raise agcread.FormatError("zstd: not a frame of the codec")
        data = [e.eval_concrete(x) for x in e.fs.files[PATH].data]
        try:
            a = agcread.Agc(data, zd)
            got = a.all_samples()
        except agcread.FormatError as ex:
            e.prove(False, "fmt:independent_decoder", f"a reader built from the AGC v3 format rules rejects the archive: {ex}")
        except (IndexError, ValueError, KeyError) as ex:
            e.prove(False, "fmt:independent_decoder", f"a reader built from the AGC v3 format rules cannot parse the archive: {ex!r}")
        ev = e.eval_concrete
        src = self.sym_data(e) if (self.sym or self.edits) else self.samples
        want = []
        for sn, cs in src:
            if not want or want[-1][0] != sn:
                want.append((sn, []))
            want[-1][1].extend((cn, [ev(x) if isinstance(x, Int) else x for x in d]) for cn, d in cs)
        e.prove(got == want, "fmt:independent_decoder", f"the independent reader decodes {got}, the input was {want}")
        e.prove((a.k, a.min_match, a.pack_card) == (self.k, self.cfg.get("min_match_len", Int(64, 0, 4)).v, 50), "fmt:params", f"params stream says k={a.k}, min_match={a.min_match}, pack={a.pack_card}")
        e.witness("independent_decoder_agrees")

    def file_bytes(self, e):
        fd = e.fs.files.get(PATH)
        return [x.v for x in fd.data] if fd is not None else None

    def canonical(self, e, threads=1):
        """File written by the same inputs with `threads` workers under ONE canonical schedule (no choices): reference for the
        determinism and fault views. Cached per process (the sources cannot change within a run)."""
        key = ("canon", threads)
        c = self.__dict__.setdefault("_canon", {})
        if key not in c:
            saved = (self.threads, e.fs, e.sched)
            self.threads = threads
            try:
                r = self.run_pipeline(e, sched=False)
                if r.variant != 0:
                    raise Unsupported("canonical run: finalize returned Err")
                c[key] = self.file_bytes(e)
            finally:
                self.threads = saved[0]
                if e.sched is not None:
                    e.sched.shutdown()
                e.fs, e.sched = saved[1], saved[2]
        return c[key]

    def dump(self, e):
        """descriptor table + extracted samples of the archive the engine's run wrote (for the engine-vs-native cross-check)"""
        e.sched = None
        cfg = e.struct("DecompressorConfig", verbosity=Int(32, 0, 0))
        h = Cell(e.call_fn(CORE, "Decompressor::open", [e.str_slice(PATH), cfg]).f[0])
        ev = e.eval_concrete
        tab = []
        for t in e.vec_items(e.call_fn(CORE, "Decompressor::get_all_segments", [Ref(h)]).f[0]):
            tab.append([bytes(ev(x) for x in e.vec_items(t.f[0])).decode(), bytes(ev(x) for x in e.vec_items(t.f[1])).decode(),
                        [[ev(e.field(d, "SegmentDesc", "group_id")), ev(e.field(d, "SegmentDesc", "in_group_id")), bool(ev(e.field(d, "SegmentDesc", "is_rev_comp"))), ev(e.field(d, "SegmentDesc", "raw_length"))] for d in e.vec_items(t.f[2])]])
        out = []
        for n in e.vec_items(e.call_fn(CORE, "Decompressor::list_samples", [Ref(h)])):
            r = e.call_fn(CORE, "Decompressor::get_sample", [Ref(h), e.as_slice(Ref(Cell(n)))])
            out.append([bytes(ev(x) for x in e.vec_items(n)).decode(), [[bytes(ev(x) for x in e.vec_items(t.f[0])).decode(), [ev(x) for x in e.vec_items(t.f[1])]] for t in e.vec_items(r.f[0])]])
        return {"segments": tab, "samples": out}

    def concrete_cases(self, rnd):
        """one concrete run (first-choice schedule) whose descriptor table and extracted samples are compared with a native run of the
        same real code: validates the interpreter and every std / codec / thread model the pipeline touches"""
        if self.view == "fault" or not self.cross:
            return []
        c = {"__concrete__": 1}
        if self.alts:
            c["alt"] = rnd.randrange(len(self.alts))
        return [c]

    def compare(self, s, n):
        return s.get("segments") == n.get("segments") and s.get("samples") == n.get("samples")

    def path(self, e):
        if e.concrete is not None:
            self.sym_backup = (self.sym, self.edits)
            try:
                self.sym, self.edits = (), ()          # the cross-check runs the unedited input of the chosen alternative
                r = self.run_pipeline(e, sched=False)
            finally:
                self.sym, self.edits = self.sym_backup
            if r.variant != 0:
                return {"error": "finalize failed"}
            e.sched.shutdown()
            return self.dump(e)
        if self.view == "determinism":
            return self.path_determinism(e)
        if self.view == "fault":
            return self.path_fault(e)
        r = self.run_pipeline(e)
        e.inputs["schedule"] = [x[1] for x in self._last_sched.log if x[0] == "run"][:400]
        e.prove(r.variant == 0, "pipe:finalize_failed", "finalize returned Err")
        e.witness("finalized")
        if self._last_sched.preempts:
            e.witness("preempted")
        for fn in ("find_split_by_cost", "split_segment_at_position", "find_group_with_one_kmer"):
            if any(k_.endswith(fn) for k_ in e.funcs_used):
                e.witness("reached:" + fn)
        if self.sym or self.edits:
            self.pin_symbols(e)
            e.inputs["samples"] = [[sn.decode(), [[cn.decode(), [e.eval_concrete(x) for x in d]] for cn, d in cs]] for sn, cs in self.sym_data(e)]
        if self.view in ("roundtrip", "all"):
            self.read_back(e)
        if self.view == "format":
            self.independent_decode(e)
        if self.view == "term":
            # every queued contig was compressed: the archive lists every pushed sample and contig (read back through the real reader)
            self.read_back(e)
        return {"file": self.file_bytes(e)}

    def path_determinism(self, e):
        ref = self.canonical(e, 1)
        r = self.run_pipeline(e)
        e.inputs["schedule"] = [x[1] for x in self._last_sched.log if x[0] == "run"][:400]
        e.prove(r.variant == 0, "pipe:finalize_failed", "finalize returned Err")
        e.witness("finalized")
        got = self.file_bytes(e)
        if self._last_sched.preempts:
            e.witness("preempted")
        e.prove(got == ref, "det:archive_differs", f"archive written with {self.threads} worker(s) under this schedule differs from the 1-worker canonical archive "
                f"({len(got)} vs {len(ref)} bytes, first difference at {next((i for i, (a, b) in enumerate(zip(got, ref)) if a != b), min(len(got), len(ref)))})")
        return {"file": got}

    def path_fault(self, e):
        ref = self.canonical(e, self.threads)
        N = len(ref)
        e.inputs["N"] = N
        phi = e.choose(N + 1, "phi")           # bytes that can be written before the device fails; N = no fault (vacuity witness)
        comp = self.build(e, sched=False)
        e.fs.fault_at = phi if phi < N else None
        r = self.drive(e, comp)
        e.sched.join_all()
        self._last_sched = e.sched
        got = self.file_bytes(e)
        if phi == N:
            e.prove(r.variant == 0, "fault:spurious_error", "finalize failed without any injected fault")
            e.witness("no_fault_ok")
        else:
            e.witness("faulted" if e.fs.faulted else "fault_not_reached")
            e.prove(e.fs.faulted, "fault:not_reached", f"the write covering byte {phi} was never attempted although the complete archive has {N} bytes")
            e.prove(r.variant == 1, "fault:swallowed", f"finalize returned Ok although the write at offset {phi} failed ({len(got or [])} of {N} bytes on disk)")
            e.witness("error_reported")
        e.witness("finalized")
        return {"file": got}

    def classify_panic(self, e, ex):
        return f"pipe:panic:{ex.where.split('::')[-1]}:{ex.kind}", str(ex)

    def confirm(self, viol, outs):
        for prof, o in outs.items():
            if self.driver == "single" and prof == "dev":
                continue                # the dev build always panics in single-file mode (known finding F7): it cannot confirm anything else
            if o.get("crash") == "timeout":
                continue                # the whole replay process ran out of time (loaded machine): no verdict from this profile
            if "panic" in o or "crash" in o:
                return True
            if o.get("timeout") and self.threads > 1 and str(o.get("why", "")).startswith("1 worker"):
                continue                # the one-worker reference run itself timed out (loaded machine): says nothing about this counterexample
            if o.get("ok") is False or o.get("timeout"):
                return True
        return False

    def native(self, inp):
        samples0, splitters0 = (self.alts[inp.get("alt", 0)] if self.alts else (self.samples, self.splitters))
        case = {"threads": self.threads, "k": self.k, "splitters": [str(kmer_canon(w)) for w in splitters0], "driver": self.driver, "qcap": self.qcap,
                "cfg": {n: (v.v if hasattr(v, "v") else v) for n, v in self.cfg.items()},
                "samples": [[sn.decode(), [[cn.decode(), list(d)] for cn, d in cs]] for sn, cs in samples0], "runs": {"determinism": 12, "fault": 0}.get(self.view, 2), "indep": self.view == "format", "watchdog_s": 90,
                "pace_ms": [0, 25] if self.view == "determinism" else [0]}
        if inp.get("samples"):
            case["samples"] = inp["samples"]
        if inp.get("__concrete__"):
            return "pipeline_dump", case
        if self.view == "fault":
            f = min(inp.get("phi", 0) / max(inp.get("N", 1), 1), 0.999)
            case["fault_fractions"] = sorted({round(x, 4) for x in (f, max(f - 0.02, 0.0), min(f + 0.02, 0.999), 0.0, 0.25, 0.5, 0.75, 0.9, 0.97)})
        return "pipeline", case

C1 = [0, 1, 2, 3, 0, 0, 1, 2, 2, 3, 1, 3, 3, 0, 2, 1, 1]
C2 = [0, 1, 2, 3, 0, 0, 1, 2, 0, 3, 1, 3, 3, 0, 2, 1, 1]
C3 = [2, 1, 0, 0, 1, 3, 3, 0, 2]
SPL = [(0, 0, 1), (3, 3, 0)]
ONE = [(b"s1", [(b"c1", C1[:11])])]
TWO = [(b"s1", [(b"c1", C1), (b"c2", [3, 3, 2])]), (b"s2", [(b"c1", C2)])]
THREE = [(b"s1", [(b"c1", C1), (b"c2", C3)]), (b"s2", [(b"c1", C2), (b"c2", C3)]), (b"s3", [(b"c1", C1)])]


def _rc(c):
    return [(3 - b) if b < 4 else b for b in reversed(c)]


# a contig with THREE splitter k-mers (each canonical value occurs once), so that a sample which loses the middle one has a segment
# spanning a missing splitter whose two neighbour groups exist: the barrier-time split / whole-assignment logic runs
C4 = [2, 1, 0, 3, 1, 0, 0, 3, 2, 0, 3, 1, 2, 0, 2, 1, 1, 2, 3, 2, 2, 0, 0, 0, 0, 0, 0]
SPL3 = [(0, 0, 3), (2, 0, 2), (2, 2, 0)]
MID = [(b"s1", [(b"c1", C4)]), (b"s2", [(b"c1", C4)])]
# six more such contigs: one per relative order of the three canonical splitter values (orientation decisions depend on those orders)
MID_CONTIGS = [
    ([3, 3, 0, 2, 3, 3, 2, 3, 2, 1, 1, 2, 1, 0, 2, 1, 2, 0, 0, 2, 3, 0, 2, 3, 2, 1, 3], [(3, 2, 3), (1, 0, 2), (2, 3, 0)]),
    ([1, 1, 2, 3, 0, 0, 3, 2, 1, 1, 3, 3, 3, 1, 1, 1, 3, 0, 0, 1, 0, 2, 0, 2, 3, 3, 3], [(0, 3, 2), (3, 1, 1), (1, 0, 2)]),
    ([2, 0, 0, 2, 0, 0, 1, 1, 2, 3, 2, 2, 0, 3, 3, 3, 2, 3, 1, 3, 1, 0, 3, 1, 2, 1, 3], [(0, 1, 1), (0, 3, 3), (3, 1, 0)]),
    ([3, 2, 2, 1, 1, 0, 2, 3, 0, 2, 0, 3, 1, 3, 3, 1, 1, 1, 0, 0, 1, 0, 3, 0, 2, 1, 1], [(0, 2, 3), (1, 3, 3), (0, 1, 0)]),
    ([3, 3, 0, 3, 3, 1, 1, 0, 1, 1, 1, 1, 2, 0, 2, 2, 2, 2, 0, 0, 0, 2, 1, 2, 0, 1, 2], [(1, 1, 0), (2, 0, 2), (0, 0, 2)]),
    ([2, 0, 0, 2, 3, 3, 2, 1, 1, 2, 3, 0, 1, 3, 0, 0, 0, 3, 3, 0, 3, 2, 0, 1, 0, 2, 1], [(3, 2, 1), (1, 3, 0), (0, 3, 2)]),
]
# a segment between two splitters that contains a run of five N: both samples share the gap, the second differs by one base somewhere
CN = [3, 3, 0, 2, 3, 3, 2, 3, 2, 1, 1, 2, 1, 4, 4, 4, 4, 4, 0, 2, 3, 0, 2, 3, 2, 1, 3, 3, 2, 0, 0, 0, 3, 0]
SPLN = [(2, 3, 3), (3, 2, 0)]
NRUN = [(b"s1", [(b"c1", CN)]), (b"s2", [(b"c1", CN)])]
MID_ALTS = [([(b"s1", [(b"c1", c)]), (b"s2", [(b"c1", c)])], spl) for c, spl in [(C4, SPL3)] + MID_CONTIGS]


# shared groups, a whole-contig reverse complement, an IUPAC code, an N-run, a contig of exactly k bases, one shorter than k, identical contigs
RICH = [(b"s1", [(b"c1", C1), (b"c2", [3, 3, 2]), (b"c3", [1])]),
        (b"s2", [(b"c1", _rc(C1)), (b"c2", C1[:8] + [7] + C1[9:]), (b"c3", C1)]),
        (b"s3", [(b"c1", C1[:7] + [4, 4, 4, 4] + C1[7:]), (b"c2", C2)])]

INSTANCES = {}


def _reg(i):
    INSTANCES[i.name] = i
    return i


_reg(Pipeline("empty_t1", 1, []))
_reg(Pipeline("one_t1", 1, ONE, splitters=SPL[:1]))
_reg(Pipeline("one_t2", 2, ONE, splitters=SPL[:1], preempt=1))
_reg(Pipeline("two_t1", 1, TWO, splitters=SPL, preempt=0))
_reg(Pipeline("two_t2", 2, TWO, splitters=SPL, preempt=0))
_reg(Pipeline("multi_t1", 1, TWO, splitters=SPL, preempt=0, driver="multi"))
_reg(Pipeline("multi_t2", 2, THREE, splitters=SPL, preempt=0, driver="multi"))
_reg(Pipeline("single_t2", 2, THREE, splitters=SPL, preempt=0, driver="single", pack_size=Int(64, 0, 2)))
_reg(Pipeline("det_multi_t2", 2, THREE, splitters=SPL, preempt=0, driver="multi", view="determinism"))
_reg(Pipeline("det_api_t2", 2, TWO, splitters=SPL, preempt=1, driver="api", view="determinism"))
_reg(Pipeline("fault_api_t1", 1, TWO, splitters=SPL, preempt=0, driver="api", view="fault"))
_reg(Pipeline("det_single_t2", 2, THREE, splitters=SPL, preempt=0, driver="single", view="determinism", pack_size=Int(64, 0, 2)))
_reg(Pipeline("det_single_t2_p1", 2, THREE, splitters=SPL, preempt=1, driver="single", view="determinism", pack_size=Int(64, 0, 2)))
_reg(Pipeline("sym1_api_t1", 1, TWO, splitters=SPL, preempt=0, driver="api", sym=[(1, 0, 8)]))
_reg(Pipeline("sym2_api_t1", 1, TWO, splitters=SPL, preempt=0, driver="api", sym=[(1, 0, 5), (1, 0, 12)]))
_reg(Pipeline("edit_subst_t1", 1, TWO, splitters=SPL, preempt=0, driver="api", edits=[("subst", 1, 0)]))
_reg(Pipeline("edit_indel_rc_t1", 1, TWO, splitters=SPL, preempt=0, driver="api", edits=[("rc", 1, 0), ("del", 1, 0), ("ins", 1, 0)]))
_reg(Pipeline("fmt_api_t1", 1, THREE, splitters=SPL, preempt=0, driver="api", view="format"))
_reg(Pipeline("nrun_subst_multi_t1", 1, NRUN, splitters=SPLN, preempt=0, driver="multi", edits=[("subst", 1, 0)], sym_alpha=(0, 1, 2, 3, 4)))
UNS4 = [(b"sB", [(b"c1", C1), (b"c2", C3)]), (b"sA", [(b"c1", C2), (b"c2", C3), (b"c3", C1)])]
_reg(Pipeline("det_single_unsorted_t1_p1", 1, UNS4, splitters=SPL, preempt=1, driver="single", view="determinism", pack_size=Int(64, 0, 2)))
_reg(Pipeline("det_single_unsorted_t2_p0", 2, UNS4, splitters=SPL, preempt=0, driver="single", view="determinism", pack_size=Int(64, 0, 2)))
