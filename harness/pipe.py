"""Whole-pipeline driver used by several properties (C01, C02, C04, C05, C15): the REAL StreamingQueueCompressor is
built by its real constructor (which spawns the real worker_thread closures as simulated threads), contigs are pushed
through the real push(), finalize() runs for real (sync tokens, close, join, partial packs, metadata, footer) on the
file-system model, and the result is read back by the real Decompressor. ZSTD is the lossless stub; the thread
scheduler explores interleavings at Mutex/Condvar/Barrier points."""
import z3
from mirsym.values import *
from mirsym.values import b_and, b_or, b_not
from mirsym.sched import Sched, MutexObj
from mirsym.models_coll import MapObj
from harness.base import Instance, run_instances

CORE, COMMON = "ragc-core", "ragc-common"
PATH = b"/sym/pipe.agc"
S = lambda b: VecObj([Int(8, 0, x) for x in b], "String")


def mk_config(e, **over):
    cfgn = e.p.structs["agc_compressor.rs:StreamingQueueConfig"]
    cfg = e.call_fn(CORE, "<StreamingQueueConfig as Default>::default", [])
    vals = dict(k=Int(64, 0, 3), segment_size=Int(64, 0, 4), min_match_len=Int(64, 0, 4), compression_level=Int(32, 1, 17), num_threads=Int(64, 0, 1),
                queue_capacity=Int(64, 0, 1 << 20), verbosity=Int(64, 0, 0))
    vals.update(over)
    for n, v in vals.items():
        cfg.f[cfgn.index(n)] = v
    return cfg


def kmer_canon(codes):
    """canonical k-mer value as ragc packs it (left-aligned 2-bit), independent restatement"""
    k = len(codes)
    f = 0; r = 0
    for i, c in enumerate(codes):
        f |= c << (62 - 2 * i)
    for i, c in enumerate(reversed(codes)):
        r |= (3 - c) << (62 - 2 * i)
    return min(f, r)


class Pipeline(Instance):
    crates = ("ragc-core", "ragc-common")

    def __init__(self, name, threads, samples, k=3, splitters=(), preempt=1, **cfg):
        Instance.__init__(self, name)
        self.threads, self.samples, self.k, self.splitters, self.cfg, self.preempt = threads, samples, k, splitters, cfg, preempt
        self.required_witnesses = ("finalized",)
        self.max_wall = 3000

    def build(self, e):
        from mirsym import models_io
        e.fs = models_io.FS()
        s = Sched(e, max_switches=20000, max_preempt=self.preempt); e.sched = s
        cfg = mk_config(e, k=Int(64, 0, self.k), num_threads=Int(64, 0, self.threads), **self.cfg)
        spl = MapObj(False, True)
        for w in self.splitters:
            spl.items.append([Int(64, 0, kmer_canon(w)), UNIT])
        r = e.call_fn(CORE, "StreamingQueueCompressor::with_splitters", [e.str_slice(PATH), cfg, spl])
        e.prove(r.variant == 0, "pipe:create_failed", "with_splitters returned Err")
        return Cell(r.f[0])

    def path(self, e):
        comp = self.build(e)
        for sname, contigs in self.samples:
            for cname, data in contigs:
                r = e.call_fn(CORE, "StreamingQueueCompressor::push", [Ref(comp), S(sname), S(cname), VecObj([Int(8, 0, x) for x in data])])
                e.prove(r.variant == 0, "pipe:push_failed", "push returned Err")
        r = e.call_fn(CORE, "StreamingQueueCompressor::finalize", [comp.v])
        e.prove(r.variant == 0, "pipe:finalize_failed", "finalize returned Err")
        e.witness("finalized")
        e.sched.join_all()
        return self.read_back(e)

    def read_back(self, e):
        self._last_sched = e.sched; e.sched = None
        cfg = e.struct("DecompressorConfig", verbosity=Int(32, 0, 0))
        r = e.call_fn(CORE, "Decompressor::open", [e.str_slice(PATH), cfg])
        e.prove(r.variant == 0, "pipe:open_failed", "Decompressor::open failed on the archive finalize() reported as written")
        h = Cell(r.f[0])
        names = e.call_fn(CORE, "Decompressor::list_samples", [Ref(h)])
        got = [bytes(x.v for x in e.vec_items(n)) for n in e.vec_items(names)]
        exp = []
        for sname, _ in self.samples:
            if sname not in exp:
                exp.append(sname)
        e.prove(got == exp, "pipe:sample_list", f"archive lists {got}, pushed {exp}")
        out = {}
        for sname in exp:
            r = e.call_fn(CORE, "Decompressor::get_sample", [Ref(h), e.str_slice(sname)])
            e.prove(r.variant == 0, "pipe:extract_failed", f"get_sample({sname}) failed")
            cs = [(bytes(x.v for x in e.vec_items(t.f[0])), [x.v for x in e.vec_items(t.f[1])]) for t in e.vec_items(r.f[0])]
            want = [(c, list(d)) for sn, contigs in self.samples if sn == sname for c, d in contigs]
            e.prove(cs == want, "pipe:roundtrip", f"sample {sname}: extracted {cs} != pushed {want}")
            out[sname.decode()] = cs
        return {"file": [x.v for x in e.fs.files[PATH].data]}

    def classify_panic(self, e, ex):
        return f"pipe:panic:{ex.where.split('::')[-1]}:{ex.kind}", str(ex)


INSTANCES = {}


def _reg(i):
    INSTANCES[i.name] = i
    return i


_reg(Pipeline("empty_t1", 1, []))
_reg(Pipeline("one_t1", 1, [(b"s1", [(b"c1", [0, 1, 2, 3, 0, 0, 1, 2, 2, 3, 1])])], splitters=[(0, 0, 1)]))
_reg(Pipeline("one_t1_p2", 1, [(b"s1", [(b"c1", [0, 1, 2, 3, 0, 0, 1, 2, 2, 3, 1])])], splitters=[(0, 0, 1)], preempt=2))
_reg(Pipeline("one_t2", 2, [(b"s1", [(b"c1", [0, 1, 2, 3, 0, 0, 1, 2, 2, 3, 1])])], splitters=[(0, 0, 1)], preempt=1))
C1 = [0, 1, 2, 3, 0, 0, 1, 2, 2, 3, 1, 3, 3, 0, 2, 1, 1]
C2 = [0, 1, 2, 3, 0, 0, 1, 2, 0, 3, 1, 3, 3, 0, 2, 1, 1]
_reg(Pipeline("two_t1", 1, [(b"s1", [(b"c1", C1), (b"c2", [3, 3, 2])]), (b"s2", [(b"c1", C2)])], splitters=[(0, 0, 1), (3, 3, 0)], preempt=0))
_reg(Pipeline("two_t2", 2, [(b"s1", [(b"c1", C1), (b"c2", [3, 3, 2])]), (b"s2", [(b"c1", C2)])], splitters=[(0, 0, 1), (3, 3, 0)], preempt=0))
