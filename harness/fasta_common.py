"""Shared pieces of the FASTA-parser harnesses (C16, C19): independent reference parser and code table."""
from mirsym.values import *
from mirsym.values import b_and, b_or, b_not
from mirsym.models import ite_int

CORE = "ragc-core"
# independent statement of the symbol table (IUPAC letters -> codes 0..15, any other letter -> 30)
IUPAC = {"A": 0, "C": 1, "G": 2, "T": 3, "N": 4, "R": 5, "Y": 6, "S": 7, "W": 8, "K": 9, "M": 10, "B": 11, "D": 12, "H": 13, "V": 14, "U": 15}


def is_letter(e, b):
    return b_or(b_and(e.binop("Ge", b, Int(8, 0, 65)), e.binop("Le", b, Int(8, 0, 90))),
                b_and(e.binop("Ge", b, Int(8, 0, 97)), e.binop("Le", b, Int(8, 0, 122))))


def code_of(e, b):
    """Expected code of a letter byte (If-term, no fork)."""
    up = ite_int(e.binop("Ge", b, Int(8, 0, 97)), e.binop("Sub", b, Int(8, 0, 32)), b)
    r = Int(8, 0, 30)
    for ch, code in IUPAC.items():
        r = ite_int(e.binop("Eq", up, Int(8, 0, ord(ch))), Int(8, 0, code), r)
    return r


def is_ws(e, b):
    r = False
    for ch in (32, 9, 10, 11, 12, 13):
        r = b_or(r, e.binop("Eq", b, Int(8, 0, ch)))
    return r


def reference_parse(e, text):
    """Reference FASTA reader over a (symbolic) byte list; forks on structure only.
    Returns (records, leading_garbage) where records = [(header bytes, [codes])] in order, including records without bases."""
    lines, cur = [], []
    for b in text:
        cur.append(b)
        if e.branch(e.binop("Eq", b, Int(8, 0, 10))):
            lines.append(cur); cur = []
    if cur:
        lines.append(cur)
    records, leading = [], False
    current = None
    for ln in lines:
        if e.branch(e.binop("Eq", ln[0], Int(8, 0, ord(">")))):
            # header: strip every leading '>' then surrounding whitespace
            i = 0
            while i < len(ln) and e.branch(e.binop("Eq", ln[i], Int(8, 0, ord(">")))):
                i += 1
            j = len(ln)
            while i < j and e.branch(is_ws(e, ln[i])):
                i += 1
            while j > i and e.branch(is_ws(e, ln[j - 1])):
                j -= 1
            current = (ln[i:j], [])
            records.append(current)
        else:
            if current is None:
                # text before the first header: only blank (non-letter) content is tolerated by this reference
                for b in ln:
                    if e.branch(is_letter(e, b)):
                        leading = True
                continue
            for b in ln:
                if e.branch(is_letter(e, b)):
                    current[1].append(code_of(e, b))
    return records, leading


def parse_all(e, text_items, max_records=8):
    """Drive the real GenomeIO::<Cursor<Vec<u8>>>::read_contig_converted until None / Err."""
    from mirsym.models_io import CursorObj
    cur = CursorObj(VecObj(list(text_items)))
    g = e.call_fn(CORE, "GenomeIO::new", [cur])
    gc = Cell(g)
    out = []
    for _ in range(max_records + 1):
        r = e.call_fn(CORE, "GenomeIO::read_contig_converted", [Ref(gc)])
        if r.variant == 1:
            return out, "err"
        if r.f[0].variant == 0:
            return out, "end"
        t = r.f[0].f[0]
        out.append((e.vec_items(t.f[0]), e.vec_items(t.f[1])))
    return out, "more"
