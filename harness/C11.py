"""C11 — splitter selection: singleton-only, strand-symmetric, order-independent (in-memory variant).
E2 (mirsym) over the real determine_splitters / enumerate_kmers / remove_non_singletons / find_actual_splitters_in_contig
MIR (rayon = order-preserving map, radix sort = sort specification, hash sets = association lists) on symbolic references;
reference model: multiplicity counting and the two-pass selection rule restated in the harness."""
import z3
from mirsym.values import *
from mirsym.values import b_and, b_or, b_not, mkbool
from mirsym.models import ite_int, deref_all
from harness.base import Instance, run_instances
from harness.C10 import pack_window

CORE = "ragc-core"


def windows(e, contig, k):
    """Canonical k-mer values of the maximal ACGT windows of a contig: list of (end_index, value); forks on `base > 3`."""
    out, run = [], 0
    for p, b in enumerate(contig):
        if e.branch(e.binop("Gt", b, Int(8, 0, 3))):
            run = 0
        else:
            run += 1
            if run >= k:
                d, r, can, le = pack_window(e, contig[p - k + 1:p + 1], k)
                out.append((p, can))
    return out


def member(e, v, keys):
    r = False
    for kx in keys:
        r = b_or(r, e.binop("Eq", v, kx))
    return r


def set_keys(e, s):
    return [k_ for k_, _ in deref_all(e, s).items]


def same_set(e, a, b):
    r = True
    for x in a:
        r = b_and(r, member(e, x, b))
    for y in b:
        r = b_and(r, member(e, y, a))
    return r


def model_pass2(e, contig, cand_keys, k, seg):
    """The selection rule: a candidate is picked only after seg bases since the last pick (window restarts after a pick and at
    non-ACGT codes), plus the right-most candidate seen since the last restart at the contig end."""
    used, recent = [], []
    cur, run = seg, 0
    for p, b in enumerate(contig):
        if e.branch(e.binop("Gt", b, Int(8, 0, 3))):
            run = 0; recent = []
        else:
            run += 1
            if run >= k:
                d, r, can, le = pack_window(e, contig[p - k + 1:p + 1], k)
                recent.append(can)
                if cur >= seg and e.branch(member(e, can, cand_keys)):
                    used.append(can); cur = 0; run = 0; recent = []
        cur += 1
    for v in reversed(recent):
        if e.branch(member(e, v, cand_keys)):
            used.append(v); break
    return used


class Splitters(Instance):
    def __init__(self, name, k, seg_sizes, maxlens, alpha, relational=True):
        Instance.__init__(self, name)
        self.k, self.segs, self.maxlens, self.alpha, self.relational = k, seg_sizes, maxlens, alpha, relational
        self.required_witnesses = ("has_singleton", "has_duplicate", "has_splitter")
        self.bounds = {"k": k, "segment_size": seg_sizes, "reference": f"{len(maxlens)} contig(s) of length 0..{maxlens} over codes {alpha}",
                       "relations": "singletons = multiplicity-1 k-mers, duplicates = multiplicity > 1, splitters = selection rule on the singletons" + ("; sets unchanged under contig order and reverse complement of contig 0" if relational else "")}

    def run_real(self, e, contigs, seg):
        cs = VecObj([VecObj(list(c)) for c in contigs])
        r = e.call_fn(CORE, "determine_splitters", [e.as_slice(Ref(Cell(cs))), Int(64, 0, self.k), Int(64, 0, seg)])
        return set_keys(e, r.f[0]), set_keys(e, r.f[1]), set_keys(e, r.f[2])

    def path(self, e):
        k = self.k
        seg = self.segs[e.choose(len(self.segs), "seg_i")]; e.inputs["segment_size"] = seg
        contigs = []
        for i, ml in enumerate(self.maxlens):
            n = e.choose(ml + 1, f"n{i}")
            contigs.append(e.sym_bytes(f"c{i}", n, among=self.alpha))
        spl, cand, dup = self.run_real(e, contigs, seg)
        if e.concrete is not None:
            return {"splitters": sorted(x.v for x in spl), "singletons": sorted(x.v for x in cand), "duplicates": sorted(x.v for x in dup)}
        allw = [v for c in contigs for (_, v) in windows(e, c, k)]
        for i, v in enumerate(allw):
            cnt = Int(32, 0, 0)
            for w in allw:
                cnt = e.binop("Add", cnt, ite_int(e.binop("Eq", v, w), Int(32, 0, 1), Int(32, 0, 0)))
            single = e.binop("Eq", cnt, Int(32, 0, 1))
            e.prove(e.binop("Eq", member(e, v, cand), single), "spl:singletons", f"k-mer window {i}: membership in the singleton set differs from (multiplicity == 1)")
            e.prove(e.binop("Eq", member(e, v, dup), b_not(single)), "spl:duplicates", f"k-mer window {i}: membership in the duplicate set differs from (multiplicity > 1)")
        for x in cand + dup:
            e.prove(member(e, x, allw), "spl:phantom_kmer", "a singleton/duplicate entry is not a k-mer of the reference")
        for x in spl:
            e.prove(member(e, x, cand), "spl:splitter_not_singleton", "a splitter is not a singleton k-mer of the reference")
        exp = []
        for c in contigs:
            exp += model_pass2(e, c, cand, k, seg)
        e.prove(same_set(e, spl, exp), "spl:selection", "the splitter set differs from the two-pass selection rule")
        if cand: e.witness("has_singleton")
        if dup: e.witness("has_duplicate")
        if spl: e.witness("has_splitter")
        if self.relational:
            from mirsym.models import ite_int as _ite
            rc0 = [_ite(e.binop("Lt", b, Int(8, 0, 4)), e.binop("Sub", Int(8, 0, 3), b), b) for b in reversed(contigs[0])]
            variants = [[rc0] + contigs[1:]]
            if len(contigs) > 1:
                variants.append(list(reversed(contigs)))
            for vi, var in enumerate(variants):
                s2, c2, d2 = self.run_real(e, var, seg)
                what = "reverse-complementing contig 0" if vi == 0 else "reversing the contig order"
                e.prove(same_set(e, cand, c2), "spl:symmetry", f"the singleton set changes when {what}")
                e.prove(same_set(e, dup, d2), "spl:symmetry", f"the duplicate set changes when {what}")
        return None

    def classify_panic(self, e, ex):
        return f"spl:panic:{ex.where.split('::')[-1]}:{ex.kind}", str(ex)

    def native(self, inp):
        return "splitters", {"k": self.k, "segment_size": inp.get("segment_size", self.segs[0]), "contigs": [inp.get(f"c{i}", []) for i in range(len(self.maxlens))]}

    def confirm(self, viol, outs):
        if Instance.confirm(self, viol, outs):
            return True
        if viol["role"] != "spl:symmetry":
            return False
        # relational role: the native build must itself give different singleton/duplicate sets for the transformed reference
        from lib import replay
        cmd, case = self.native(viol["inputs"])
        cs = case["contigs"]
        variants = [[[(3 - b) if b < 4 else b for b in reversed(cs[0])]] + cs[1:]]
        if len(cs) > 1:
            variants.append(list(reversed(cs)))
        for prof, o in outs.items():
            for var in variants:
                o2 = replay.run(cmd, dict(case, contigs=var), profile=prof)
                if "panic" in o2 or "crash" in o2 or o2.get("singletons") != o.get("singletons") or o2.get("duplicates") != o.get("duplicates"):
                    return True
        return False

    def concrete_cases(self, rnd):
        out = []
        for _ in range(16):
            c = {"seg_i": rnd.randrange(len(self.segs))}
            for i, ml in enumerate(self.maxlens):
                n = rnd.randrange(ml + 1); c[f"n{i}"] = n; c[f"c{i}"] = [rnd.choice(self.alpha) for _ in range(n)]
            out.append(c)
        return out

    def compare(self, s, n):
        return s["splitters"] == n.get("splitters") and s["singletons"] == n.get("singletons") and s["duplicates"] == n.get("duplicates")


class Variants(Instance):
    """The in-memory, streaming and first-sample variants return the same three sets for the same reference: the reference is a FASTA
    file on the file-system model holding symbolic contigs; determine_splitters_streaming / _first_sample read it through the real
    GenomeIO reader, determine_splitters gets the same contigs in memory."""
    crates = ("ragc-core", "ragc-common")

    def __init__(self, name, k, segs, maxlens, alpha):
        Instance.__init__(self, name)
        self.k, self.segs, self.maxlens, self.alpha = k, segs, maxlens, alpha
        self.required_witnesses = ("has_splitter", "two_contigs") if len(maxlens) > 1 else ("has_splitter",)
        self.n_concrete = 8
        self.bounds = {"k": k, "segment_size": segs, "reference": f"FASTA file with {len(maxlens)} record(s) of length 1..{maxlens} over codes {alpha} (non-PanSN headers: one sample)",
                       "relation": "splitters, singletons and duplicates of determine_splitters_streaming and determine_splitters_streaming_first_sample equal those of determine_splitters"}

    def path(self, e):
        from mirsym import models_io
        e.fs = models_io.FS()
        seg = self.segs[e.choose(len(self.segs), "seg_i")]; e.inputs["segment_size"] = seg
        contigs, text = [], []
        L = b"ACGTN"
        for i, ml in enumerate(self.maxlens):
            n = 1 + e.choose(ml, f"n{i}")
            c = e.sym_bytes(f"c{i}", n, among=self.alpha)
            contigs.append(c)
            text += [Int(8, 0, b) for b in b">c%d\n" % i]
            for x in c:
                ch = Int(8, 0, L[self.alpha[-1]] if self.alpha[-1] < 5 else 78)
                for code in self.alpha:
                    ch = ite_int(e.binop("Eq", x, Int(8, 0, code)), Int(8, 0, L[code] if code < 5 else 78), ch)
                text.append(ch)
            text.append(Int(8, 0, 10))
        if len(contigs) > 1:
            e.witness("two_contigs")
        fd = models_io.FileData(); fd.data[:] = text
        path = b"/in/ref.fa"; e.fs.files[path] = fd
        cs = VecObj([VecObj(list(c)) for c in contigs])
        r0 = e.call_fn(CORE, "determine_splitters", [e.as_slice(Ref(Cell(cs))), Int(64, 0, self.k), Int(64, 0, seg)])
        mem = [set_keys(e, r0.f[j]) for j in range(3)]
        out = {}
        for fn in ("determine_splitters_streaming", "determine_splitters_streaming_first_sample"):
            r = e.call_fn(CORE, fn, [e.str_slice(path), Int(64, 0, self.k), Int(64, 0, seg)])
            e.prove(r.variant == 0, "spl:variant_failed", f"{fn} failed on a readable reference")
            got = [set_keys(e, r.f[0].f[j]) for j in range(3)]
            out[fn] = got
            if e.concrete is None:
                for j, what in enumerate(("splitter", "singleton", "duplicate")):
                    e.prove(same_set(e, mem[j], got[j]), "spl:variants_differ", f"the {what} set of {fn} differs from the in-memory determine_splitters")
        if mem[0]:
            e.witness("has_splitter")
        if e.concrete is not None:
            srt = lambda ks: sorted(x.v for x in ks)
            return {"mem": [srt(x) for x in mem], "streaming": [srt(x) for x in out["determine_splitters_streaming"]], "first": [srt(x) for x in out["determine_splitters_streaming_first_sample"]]}
        return None

    def classify_panic(self, e, ex):
        return f"spl:panic:{ex.where.split('::')[-1]}:{ex.kind}", str(ex)

    def native(self, inp):
        return "splitter_variants", {"k": self.k, "segment_size": inp.get("segment_size", self.segs[inp.get("seg_i", 0)]), "contigs": [inp.get(f"c{i}", [0]) for i in range(len(self.maxlens))]}

    def confirm(self, viol, outs):
        return any(("panic" in o or "crash" in o or o.get("ok") is False) for o in outs.values())

    def concrete_cases(self, rnd):
        out = []
        for _ in range(8):
            c = {"seg_i": rnd.randrange(len(self.segs))}
            for i, ml in enumerate(self.maxlens):
                n = 1 + rnd.randrange(ml); c[f"n{i}"] = n - 1; c[f"c{i}"] = [rnd.choice(self.alpha) for _ in range(n)]
            out.append(c)
        return out

    def compare(self, s, n):
        return s["mem"] == n.get("mem") and s["streaming"] == n.get("streaming") and s["first"] == n.get("first")


INSTANCES = {}


def _reg(i):
    INSTANCES[i.name] = i
    return i


SN = [0, 1, 2, 3, 4]
QUICK = [_reg(Variants("variants_k2", 2, [3], [5, 1], [0, 1, 3, 4])).name, _reg(Splitters("one_k2", 2, [1, 3], [5], SN)).name, _reg(Splitters("two_k2", 2, [1], [3, 2], [0, 1, 4], relational=True)).name]
THOROUGH = [_reg(Variants("T_variants_k2", 2, [1, 3], [5, 3], [0, 1, 3, 4])).name, _reg(Variants("T_variants_k3", 3, [2, 4], [6], [0, 1, 3, 4])).name, _reg(Splitters("T_one_k2", 2, [1, 2, 3], [6], SN)).name, _reg(Splitters("T_two_k2", 2, [1, 2], [4, 3], SN)).name, _reg(Splitters("T_one_k3", 3, [1, 2], [6], SN)).name]


def run(ctx):
    insts = [INSTANCES[n] for n in (QUICK if ctx["tier"] == "quick" else THOROUGH)]
    return run_instances("C11", "harness.C11", insts, ctx,
                         assumptions=["rayon par_iter().map().collect() preserves order (rayon's documented contract): thread counts are outside the claim",
                                      "the streaming and first-sample variants are compared with the in-memory one on FASTA files of the file-system model (gz outside); the segment-spacing consequence is outside this check",
                                      "radix sort is modelled by its specification (sorted permutation)"])
