"""C08 — reader answers do not depend on the query history (metadata level).
E2 (mirsym): an archive (params + sample/contig/descriptor batches written by the real CollectionV3 serialisers through
the real Archive, ZSTD = lossless stub) is opened by the real Decompressor::open; every sequence of reader operations
up to the bound — existing and unknown arguments — runs on one handle, and each answer is compared with the answer of the
same query on a freshly opened handle. Unknown names must give Err, never a panic. get_segment is a model (fixed
bytes per descriptor), so segment decoding/caching is outside this check; concurrent cloned readers share only the file."""
import z3
from mirsym.values import *
from mirsym.values import b_and, b_or, b_not
from mirsym.models import values_eq
from harness.base import Instance, run_instances
from harness.C03 import mk_collection, S

COMMON, CORE = "ragc-common", "ragc-core"
PATH = b"/sym/hist.agc"
SAMPLES = [b"s0", b"s1", b"s2"]
OPS = ["list_samples", "list_contigs", "get_contig_length", "get_contig_segments_desc", "get_contig", "get_sample", "get_all_segments", "get_group_statistics",
       "get_reference_segment"]


def same(e, a, b):
    if isinstance(a, Opaque) and isinstance(b, Opaque):
        return True
    if isinstance(a, Agg) and isinstance(b, Agg) and a.ty == "Result" and a.variant == 1 and b.variant == 1:
        return True                      # both Err: the message is not compared
    if isinstance(a, Agg) and isinstance(b, Agg):
        if a.variant != b.variant or len(a.f) != len(b.f):
            return False
        r = True
        for x, y in zip(a.f, b.f):
            r = b_and(r, same(e, x, y))
        return r
    if isinstance(a, VecObj) and isinstance(b, VecObj):
        if len(a.e) != len(b.e):
            return False
        r = True
        for x, y in zip(a.e, b.e):
            r = b_and(r, same(e, x, y))
        return r
    return values_eq(e, a, b)


class History(Instance):
    def __init__(self, name, nops, batches, ops=OPS):
        Instance.__init__(self, name)
        self.nops, self.batches, self.ops = nops, batches, ops
        self.required_witnesses = ("unknown_name", "after_miss", "ok_answer")
        self.bounds = {"archive": f"3 samples (batches of {batches}), one contig with 1..2 segments each, symbolic raw lengths", "history": f"every sequence of {nops} operations over {ops} x {{existing sample, another existing sample, unknown name}}"}

    def setup(self, e):
        def get_segment(e_, c, a):
            d = e_.load(a[1])
            n = e_.field(d, "SegmentDesc", "raw_length")
            return ok(VecObj([Int(8, 0, (i * 7 + 1) % 4) for i in range(3)]))
        e.stub(r"(^|::)Decompressor::get_segment$", get_segment)

    def write_archive(self, e):
        samples = []
        for i, nm in enumerate(SAMPLES):
            rl = e.sym_int(f"l{i}", 32, lo=3, hi=300) if i == 2 else Int(32, 0, 900 + i)
            e.inputs[f"l{i}"] = rl
            segs = [e.struct("SegmentDesc", group_id=Int(32, 0, 16 + i), in_group_id=Int(32, 0, 0), is_rev_comp=False, raw_length=rl)]
            samples.append(([Int(8, 0, b) for b in nm], [([Int(8, 0, 99), Int(8, 0, 48 + i)], segs)]))
        src = mk_collection(e, samples, 1000, 3)
        arc = Cell(e.call_fn(COMMON, "Archive::new_writer", [])); ar = Ref(arc)
        e.call_fn(COMMON, "Archive::open", [ar, e.str_slice(PATH)])
        pid = e.call_fn(COMMON, "Archive::register_stream", [ar, e.str_slice(b"params")])
        params = []
        for v in (3, 20, 50, 1000):
            params += [Int(8, 0, (v >> (8 * j)) & 0xFF) for j in range(4)]
        e.call_fn(COMMON, "Archive::add_part_buffered", [ar, pid, VecObj(params), Int(64, 0, 0)])
        e.call_fn(COMMON, "CollectionV3::prepare_for_compression", [Ref(src), ar])
        e.call_fn(COMMON, "CollectionV3::store_batch_sample_names", [Ref(src), ar])
        pos = 0
        for sz in self.batches:
            e.call_fn(COMMON, "CollectionV3::store_contig_batch", [Ref(src), ar, Int(64, 0, pos), Int(64, 0, pos + sz)]); pos += sz
        e.call_fn(COMMON, "Archive::flush_buffers", [ar]); e.call_fn(COMMON, "Archive::close", [ar])

    def open(self, e):
        cfg = e.struct("DecompressorConfig", verbosity=Int(32, 0, 0))
        r = e.call_fn(CORE, "Decompressor::open", [e.str_slice(PATH), cfg])
        e.prove(r.variant == 0, "hist:open_failed", "Decompressor::open failed on a well-formed archive")
        return Cell(r.f[0])

    def query(self, e, hc, op, sample, contig):
        s = lambda: e.str_slice(sample); c = lambda: e.str_slice(contig)
        h = Ref(hc)
        if op == "list_samples":
            return e.call_fn(CORE, "Decompressor::list_samples", [h])
        if op in ("list_contigs", "get_sample"):
            return e.call_fn(CORE, f"Decompressor::{op}", [h, s()])
        if op in ("get_contig_length", "get_contig_segments_desc", "get_contig"):
            return e.call_fn(CORE, f"Decompressor::{op}", [h, s(), c()])
        if op == "get_reference_segment":
            gid = {b"s0": 16, b"s2": 3}.get(sample, 9999)       # LZ group without a stream in this archive, raw group, unknown group
            return e.call_fn(CORE, "Decompressor::get_reference_segment", [h, Int(32, 0, gid)])
        return e.call_fn(CORE, f"Decompressor::{op}", [h])

    def path(self, e):
        from mirsym import models_io
        e.fs = models_io.FS()
        self.write_archive(e)
        hc = self.open(e)
        hist = []
        missed = False
        for i in range(self.nops):
            op = self.ops[e.choose(len(self.ops), f"op{i}")]
            arg = e.choose(3, f"arg{i}")          # 0: sample s0, 1: sample s2 (last batch), 2: unknown
            sample = [SAMPLES[0], SAMPLES[2], b"zz"][arg]
            contig = [b"c0", b"c2", b"nope"][arg]
            hist.append([op, sample.decode()])
            e.inputs["history"] = hist
            got = self.query(e, hc, op, sample, contig)
            fresh = self.query(e, self.open(e), op, sample, contig)
            takes_name = op not in ("list_samples", "get_all_segments", "get_group_statistics", "get_reference_segment")
            if arg == 2 and takes_name:
                e.witness("unknown_name")
                e.prove(isinstance(got, Agg) and got.ty == "Result" and got.variant == 1, "hist:unknown_not_error", f"{op} on an unknown name did not return an error value")
            elif isinstance(got, Agg) and got.ty == "Result" and got.variant == 0:
                e.witness("ok_answer")
                if missed:
                    e.witness("after_miss")
            e.prove(same(e, got, fresh), "hist:answer_depends_on_history", f"{op}({sample.decode()}) after {hist[:-1]} differs from the same query on a fresh handle")
            if arg == 2 and takes_name:
                missed = True
        return None

    def classify_panic(self, e, ex):
        return f"hist:panic:{ex.where.split('::')[-1]}:{ex.kind}", str(ex)

    def native(self, inp):
        return "reader_history", {"history": inp.get("history", []), "lens": [inp.get(f"l{i}", 3) for i in range(3)], "batches": self.batches}


INSTANCES = {}


def _reg(i):
    INSTANCES[i.name] = i
    return i


QUICK = [_reg(History("hist2", 2, [2, 1])).name]
THOROUGH = [_reg(History("T_hist3", 3, [2, 1])).name, _reg(History("T_hist2_b111", 2, [1, 1, 1])).name]


def run(ctx):
    insts = [INSTANCES[n] for n in (QUICK if ctx["tier"] == "quick" else THOROUGH)]
    return run_instances("C08", "harness.C08", insts, ctx,
                         assumptions=["get_segment is a model returning fixed bytes per descriptor: segment decoding and the reference cache are outside this check",
                                      "ZSTD is an abstract lossless codec stub", "handles cloned for other threads re-open the file (clone_for_thread) and share no state: concurrent readers are outside"])
