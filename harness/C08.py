"""C08 — reader answers do not depend on the query history (metadata level).
E2 (mirsym): an archive (params + sample/contig/descriptor batches written by the real CollectionV3 serialisers through
the real Archive, ZSTD = lossless stub) is opened by the real Decompressor::open; every sequence of reader operations
up to the bound — existing and unknown arguments — runs on one handle, and each answer is compared with the answer of the
same query on a freshly opened handle. Unknown names must give Err, never a panic. get_segment is a model (fixed
bytes per descriptor), so segment decoding/caching is outside this check; concurrent cloned readers share only the file."""
import z3
from mirsym.values import *
from mirsym.values import b_and, b_or, b_not
from mirsym.models import values_eq
from harness.base import Instance, run_instances
from harness.C03 import mk_collection, S

COMMON, CORE = "ragc-common", "ragc-core"
PATH = b"/sym/hist.agc"
SAMPLES = [b"s0", b"s1", b"s2"]
OPS = ["list_samples", "list_contigs", "get_contig_length", "get_contig_segments_desc", "get_contig", "get_sample", "get_all_segments", "get_group_statistics",
       "get_reference_segment"]


def same(e, a, b):
    if isinstance(a, Opaque) and isinstance(b, Opaque):
        return True
    if isinstance(a, Agg) and isinstance(b, Agg) and a.ty == "Result" and a.variant == 1 and b.variant == 1:
        return True                      # both Err: the message is not compared
    if isinstance(a, Agg) and isinstance(b, Agg):
        if a.variant != b.variant or len(a.f) != len(b.f):
            return False
        r = True
        for x, y in zip(a.f, b.f):
            r = b_and(r, same(e, x, y))
        return r
    if isinstance(a, VecObj) and isinstance(b, VecObj):
        if len(a.e) != len(b.e):
            return False
        r = True
        for x, y in zip(a.e, b.e):
            r = b_and(r, same(e, x, y))
        return r
    return values_eq(e, a, b)


class History(Instance):
    def __init__(self, name, nops, batches, ops=OPS):
        Instance.__init__(self, name)
        self.nops, self.batches, self.ops = nops, batches, ops
        self.required_witnesses = ("unknown_name", "after_miss", "ok_answer")
        self.bounds = {"archive": f"3 samples (batches of {batches}), one contig with 1..2 segments each, symbolic raw lengths", "history": f"every sequence of {nops} operations over {ops} x {{existing sample, another existing sample, unknown name}}"}

    def setup(self, e):
        def get_segment(e_, c, a):
            d = e_.load(a[1])
            n = e_.field(d, "SegmentDesc", "raw_length")
            return ok(VecObj([Int(8, 0, (i * 7 + 1) % 4) for i in range(3)]))
        e.stub(r"(^|::)Decompressor::get_segment$", get_segment)

    def write_archive(self, e):
        samples = []
        for i, nm in enumerate(SAMPLES):
            rl = e.sym_int(f"l{i}", 32, lo=3, hi=300) if i == 2 else Int(32, 0, 900 + i)
            e.inputs[f"l{i}"] = rl
            segs = [e.struct("SegmentDesc", group_id=Int(32, 0, 16 + i), in_group_id=Int(32, 0, 0), is_rev_comp=False, raw_length=rl)]
            samples.append(([Int(8, 0, b) for b in nm], [([Int(8, 0, 99), Int(8, 0, 48 + i)], segs)]))
        src = mk_collection(e, samples, 1000, 3)
        arc = Cell(e.call_fn(COMMON, "Archive::new_writer", [])); ar = Ref(arc)
        e.call_fn(COMMON, "Archive::open", [ar, e.str_slice(PATH)])
        pid = e.call_fn(COMMON, "Archive::register_stream", [ar, e.str_slice(b"params")])
        params = []
        for v in (3, 20, 50, 1000):
            params += [Int(8, 0, (v >> (8 * j)) & 0xFF) for j in range(4)]
        e.call_fn(COMMON, "Archive::add_part_buffered", [ar, pid, VecObj(params), Int(64, 0, 0)])
        e.call_fn(COMMON, "CollectionV3::prepare_for_compression", [Ref(src), ar])
        e.call_fn(COMMON, "CollectionV3::store_batch_sample_names", [Ref(src), ar])
        pos = 0
        for sz in self.batches:
            e.call_fn(COMMON, "CollectionV3::store_contig_batch", [Ref(src), ar, Int(64, 0, pos), Int(64, 0, pos + sz)]); pos += sz
        e.call_fn(COMMON, "Archive::flush_buffers", [ar]); e.call_fn(COMMON, "Archive::close", [ar])

    def open(self, e):
        cfg = e.struct("DecompressorConfig", verbosity=Int(32, 0, 0))
        r = e.call_fn(CORE, "Decompressor::open", [e.str_slice(PATH), cfg])
        e.prove(r.variant == 0, "hist:open_failed", "Decompressor::open failed on a well-formed archive")
        return Cell(r.f[0])

    def query(self, e, hc, op, sample, contig):
        s = lambda: e.str_slice(sample); c = lambda: e.str_slice(contig)
        h = Ref(hc)
        if op == "list_samples":
            return e.call_fn(CORE, "Decompressor::list_samples", [h])
        if op in ("list_contigs", "get_sample"):
            return e.call_fn(CORE, f"Decompressor::{op}", [h, s()])
        if op in ("get_contig_length", "get_contig_segments_desc", "get_contig"):
            return e.call_fn(CORE, f"Decompressor::{op}", [h, s(), c()])
        if op == "get_reference_segment":
            gid = {b"s0": 16, b"s2": 3}.get(sample, 9999)       # LZ group without a stream in this archive, raw group, unknown group
            return e.call_fn(CORE, "Decompressor::get_reference_segment", [h, Int(32, 0, gid)])
        return e.call_fn(CORE, f"Decompressor::{op}", [h])

    def path(self, e):
        from mirsym import models_io
        e.fs = models_io.FS()
        self.write_archive(e)
        hc = self.open(e)
        hist = []
        missed = False
        for i in range(self.nops):
            op = self.ops[e.choose(len(self.ops), f"op{i}")]
            arg = e.choose(3, f"arg{i}")          # 0: sample s0, 1: sample s2 (last batch), 2: unknown
            sample = [SAMPLES[0], SAMPLES[2], b"zz"][arg]
            contig = [b"c0", b"c2", b"nope"][arg]
            hist.append([op, sample.decode()])
            e.inputs["history"] = hist
            got = self.query(e, hc, op, sample, contig)
            fresh = self.query(e, self.open(e), op, sample, contig)
            takes_name = op not in ("list_samples", "get_all_segments", "get_group_statistics", "get_reference_segment")
            if arg == 2 and takes_name:
                e.witness("unknown_name")
                e.prove(isinstance(got, Agg) and got.ty == "Result" and got.variant == 1, "hist:unknown_not_error", f"{op} on an unknown name did not return an error value")
            elif isinstance(got, Agg) and got.ty == "Result" and got.variant == 0:
                e.witness("ok_answer")
                if missed:
                    e.witness("after_miss")
            e.prove(same(e, got, fresh), "hist:answer_depends_on_history", f"{op}({sample.decode()}) after {hist[:-1]} differs from the same query on a fresh handle")
            if arg == 2 and takes_name:
                missed = True
        return None

    def classify_panic(self, e, ex):
        return f"hist:panic:{ex.where.split('::')[-1]}:{ex.kind}", str(ex)

    def native(self, inp):
        return "reader_history", {"history": inp.get("history", []), "lens": [inp.get(f"l{i}", 3) for i in range(3)], "batches": self.batches}


INSTANCES = {}


def _reg(i):
    INSTANCES[i.name] = i
    return i


QUICK = [_reg(History("hist2", 2, [2, 1])).name]
THOROUGH = [_reg(History("T_hist3", 3, [2, 1])).name, _reg(History("T_hist2_b111", 2, [1, 1, 1])).name]


def run(ctx):
    insts = [INSTANCES[n] for n in (QUICK if ctx["tier"] == "quick" else THOROUGH)]
    return run_instances("C08", "harness.C08", insts, ctx,
                         assumptions=["get_segment is a model returning fixed bytes per descriptor: segment decoding and the reference cache are outside this check",
                                      "ZSTD is an abstract lossless codec stub", "handles cloned for other threads re-open the file (clone_for_thread) and share no state: concurrent readers are outside"])


# ---------------------------------------------------------------------------------------------------------------
# Segment level: histories over a REAL archive written in-engine by the real pipeline (harness/pipe.py), so that get_segment, the
# per-handle reference cache, LZ decoding and both reference-decoding paths are the real code (no get_segment model here).
from harness.pipe import Pipeline, SPL as _SPL, TWO as _TWO, RICH as _RICH, PATH as _PIPE_PATH, kmer_canon as _kmer_canon

OPS2 = ["get_contig", "get_sample", "get_contig_range", "get_contig_length", "get_reference_segment", "list_contigs", "get_all_segments"]


class SegHistory(Instance):
    crates = ("ragc-core", "ragc-common")

    def __init__(self, name, nops, samples, zstd="token"):
        Instance.__init__(self, name)
        self.nops, self.samples, self.zstd = nops, samples, zstd
        self.writer = Pipeline(name + "_writer", 1, samples, splitters=_SPL, preempt=0, driver="multi", zstd=zstd)
        self.required_witnesses = ("ok_answer", "unknown_name", "reference_segment_ok")
        self.n_concrete = 0
        self.bounds = {"archive": f"written by the real pipeline from {len(samples)} samples ({zstd} codec; 'store' = every part stored raw)",
                       "history": f"every sequence of {nops} operations over {OPS2} x {{first sample, last sample, unknown name}} (contigs: first contig of the sample; groups: every group the archive uses)"}

    def archive(self, e):
        """file system holding the archive (written once per process by the real pipeline under its canonical schedule)"""
        c = self.__dict__.setdefault("_arc", {})
        if "fs" not in c:
            r = self.writer.run_pipeline(e, sched=False)
            if r.variant != 0:
                raise Unsupported("writer failed")
            e.sched.shutdown(); e.sched = None
            c["fs"] = e.fs; c["tabs"] = (e.h.get("zstd_table", []), e.h.get("zstd_hash_table", {}))
        e.fs = c["fs"]; e.sched = None
        e.h["zstd_table"], e.h["zstd_hash_table"] = c["tabs"]

    def open(self, e):
        cfg = e.struct("DecompressorConfig", verbosity=Int(32, 0, 0))
        r = e.call_fn(CORE, "Decompressor::open", [e.str_slice(_PIPE_PATH), cfg])
        e.prove(r.variant == 0, "hist:open_failed", "Decompressor::open failed on the archive written by the pipeline")
        return Cell(r.f[0])

    def groups(self, e):
        h = self.open(e)
        r = e.call_fn(CORE, "Decompressor::get_all_segments", [Ref(h)])
        gs = []
        for t in e.vec_items(r.f[0]):
            for d in e.vec_items(t.f[2]):
                g = e.field(d, "SegmentDesc", "group_id").v
                if g not in gs:
                    gs.append(g)
        return sorted(gs)

    def query(self, e, hc, op, sample, contig, gid):
        s = lambda: e.str_slice(sample); c = lambda: e.str_slice(contig)
        h = Ref(hc)
        if op in ("list_contigs", "get_sample"):
            return e.call_fn(CORE, f"Decompressor::{op}", [h, s()])
        if op in ("get_contig_length", "get_contig"):
            return e.call_fn(CORE, f"Decompressor::{op}", [h, s(), c()])
        if op == "get_contig_range":
            return e.call_fn(CORE, "Decompressor::get_contig_range", [h, s(), c(), Int(64, 0, 2), Int(64, 0, 9)])
        if op == "get_reference_segment":
            return e.call_fn(CORE, "Decompressor::get_reference_segment", [h, Int(32, 0, gid)])
        return e.call_fn(CORE, f"Decompressor::{op}", [h])

    def path(self, e):
        self.archive(e)
        gs = self.__dict__.setdefault("_groups", None) or self.groups(e)
        self._groups = gs
        lz = [g for g in gs if g >= 16]
        names = [self.samples[0][0], self.samples[-1][0], b"zz"]
        contigs = [self.samples[0][1][0][0], self.samples[-1][1][0][0], b"nope"]
        hc = self.open(e)
        hist = []
        for i in range(self.nops):
            op = OPS2[e.choose(len(OPS2), f"op{i}")]
            arg = e.choose(3, f"arg{i}")
            gid = (lz + [9999])[e.choose(len(lz) + 1, f"g{i}")] if op == "get_reference_segment" else 0
            hist.append([op, names[arg].decode(), gid]); e.inputs["history"] = hist
            got = self.query(e, hc, op, names[arg], contigs[arg], gid)
            fresh = self.query(e, self.open(e), op, names[arg], contigs[arg], gid)
            takes_name = op not in ("get_all_segments", "get_reference_segment")
            isres = isinstance(got, Agg) and got.ty == "Result"
            if arg == 2 and takes_name:
                e.witness("unknown_name")
                e.prove(isres and got.variant == 1, "hist:unknown_not_error", f"{op} on an unknown name did not return an error value")
            elif isres and got.variant == 0:
                e.witness("ok_answer")
                if op == "get_reference_segment":
                    e.witness("reference_segment_ok")
            e.prove(same(e, got, fresh), "hist:answer_depends_on_history", f"{op}({names[arg].decode()}{', group ' + str(gid) if op == 'get_reference_segment' else ''}) after {hist[:-1]} differs from the same query on a fresh handle")
            if op == "get_reference_segment" and gid in lz:
                e.prove(isres and got.variant == 0, "hist:reference_segment_failed", f"get_reference_segment({gid}) fails although group {gid} exists in the archive (history {hist[:-1]})")
        return None

    def classify_panic(self, e, ex):
        return f"hist:panic:{ex.where.split('::')[-1]}:{ex.kind}", str(ex)

    def native(self, inp):
        return "seg_history", {"history": inp.get("history", []), "zstd": self.zstd, "samples": [[sn.decode(), [[cn.decode(), list(d)] for cn, d in cs]] for sn, cs in self.samples],
                               "splitters": [str(_kmer_canon(w)) for w in _SPL]}

    def confirm(self, viol, outs):
        return any(("panic" in o or "crash" in o or o.get("ok") is False) for o in outs.values())


QUICK.append(_reg(SegHistory("seg_hist2", 2, _TWO)).name)
QUICK.append(_reg(SegHistory("seg_hist2_store", 2, _TWO, zstd="store")).name)
THOROUGH += ["seg_hist2", "seg_hist2_store", _reg(SegHistory("T_seg_hist2_rich", 2, _RICH)).name, _reg(SegHistory("T_seg_hist3", 3, _TWO, zstd="store")).name]
