"""C04 — archive bytes depend only on inputs and parameters, not on threads or timing (bounded).
E2 (mirsym) runs the REAL pipeline — constructor, worker_thread × N as simulated threads, push / drain / sync_and_flush /
finalize, classification, grouping, LZ, packs, collection, footer — on the file-system model under EVERY schedule of
producer and workers within a preemption bound, and compares the archive bytes with the archive written by ONE worker
under a canonical schedule. Data is concrete (small), the symbolic dimension is the schedule (engine choices at every
Mutex/RwLock/Condvar/Barrier/sleep point) and the thread count. ZSTD is a deterministic content-addressed lossless stub."""
from mirsym.values import Int
from harness.base import run_instances
from harness.pipe import Pipeline, SPL, C1, C2, C3, TWO, THREE

INSTANCES = {}


def _reg(i):
    INSTANCES[i.name] = i
    i.required_witnesses = ("finalized",) + (("preempted",) if i.preempt else ()) + (("drained",) if i.driver != "api" else ())
    return i


# a later sample that sorts before an earlier one and shares its groups (batch composition matters for group ids)
UNSORTED = [(b"sB", [(b"c1", C1), (b"c2", C3)]), (b"sA", [(b"c1", C2), (b"c2", C3)]), (b"sC", [(b"c1", C1)])]
P2 = Int(64, 0, 2)
UNSORTED2 = [(b"sB", [(b"c1", C1)]), (b"sA", [(b"c1", C2)])]
QUICK = [_reg(Pipeline("det_multi_t1_p1", 1, UNSORTED2, splitters=SPL, preempt=1, driver="multi", view="determinism", cross=True)).name,
         _reg(Pipeline("det_api_t2", 2, TWO, splitters=SPL, preempt=1, driver="api", view="determinism", cross=True)).name,
         _reg(Pipeline("det_multi_t2", 2, UNSORTED, splitters=SPL, preempt=0, driver="multi", view="determinism")).name,
         _reg(Pipeline("det_single_t2", 2, THREE, splitters=SPL, preempt=0, driver="single", view="determinism", pack_size=P2, cross=True)).name]
THOROUGH = ["det_multi_t1_p1", "det_api_t2", _reg(Pipeline("T_det_api_t3", 3, TWO, splitters=SPL, preempt=0, driver="api", view="determinism")).name,
            _reg(Pipeline("T_det_single_t2_p1", 2, THREE, splitters=SPL, preempt=1, driver="single", view="determinism", pack_size=P2)).name,
            "det_multi_t2", "det_single_t2"]


def run(ctx):
    insts = [INSTANCES[n] for n in (QUICK if ctx["tier"] == "quick" else THOROUGH)]
    return run_instances("C04", "harness.C04", insts, ctx,
                         assumptions=["inputs are concrete and small (2-3 samples, contigs of 3-17 bases, k=3): the claim is over schedules and thread counts, not over inputs",
                                      "schedules: all interleavings with at most the stated number of preemptions at synchronisation points (Mutex/RwLock/Condvar/Barrier/sleep); data races below those primitives and rayon's internal scheduling (par_iter = order-preserving map) are outside",
                                      "ZSTD is a deterministic, content-addressed lossless stub; std Mutex/Condvar/Barrier/thread::spawn/JoinHandle are modelled (no spurious wake-ups)",
                                      "single-file (concatenated) mode is interpreted with release-profile integer semantics (wrapping), because the dev profile panics there (known finding F7, C18)"],
                         explanation="each evaluation is one complete run of the real pipeline under one schedule; the archive must equal the 1-worker canonical archive byte for byte")
