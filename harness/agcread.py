"""Independent AGC v3 reader (format rules only — shares no code with ragc's reader): footer + stream directory, length-prefixed
big-endian integers, params, collection-samples/-contigs/-details (prefix varints, name delta coding, 5-stream descriptor table with
a per-batch in-group-id predictor), x<base64 id>r / x<base64 id>d segment streams, 0xFF-separated packs of 50, raw groups 0-15 with
a placeholder entry, marker-tagged tuple-packed or plain ZSTD parts, metadata = unpacked size or 0 for stored-raw, LZ-diff V2 text.
Python port of the reader a sub-agent wrote from the property text alone (seeded/C02-m1/demo.rs); the Rust original is the native
oracle in the replay crate. ZSTD frames are decoded by a callback (the engine's lossless stub, or real zstd natively)."""
PACK, NO_RAW_GROUPS, SEP = 50, 16, 0xFF


class FormatError(Exception):
    pass


def be_int(b, p):
    if p >= len(b):
        raise FormatError("be_int: eof")
    n = b[p]; p += 1
    if n > 8:
        raise FormatError(f"be_int: length byte {n} > 8")
    if p + n > len(b):
        raise FormatError("be_int: eof in value")
    if n > 0 and b[p] == 0:
        raise FormatError("be_int: non-canonical (leading zero byte)")
    return int.from_bytes(bytes(b[p:p + n]), "big"), p + n


def cstr(b, p):
    s = p
    while p < len(b) and b[p] != 0:
        p += 1
    if p >= len(b):
        raise FormatError("cstr: missing NUL")
    return bytes(b[s:p]), p + 1


def cvar(b, p):
    if p >= len(b):
        raise FormatError("cvar: eof")
    b0 = b[p]
    def need(n):
        if p + n > len(b):
            raise FormatError("cvar: eof")
    if b0 & 0x80 == 0:
        return b0, p + 1
    if b0 & 0xC0 == 0x80:
        need(2); return (((b0 & 0x3F) << 8) | b[p + 1]) + 128, p + 2
    if b0 & 0xE0 == 0xC0:
        need(3); return (((b0 & 0x1F) << 16) | (b[p + 1] << 8) | b[p + 2]) + 128 + 16384, p + 3
    if b0 & 0xF0 == 0xE0:
        need(4); return (((b0 & 0x0F) << 24) | (b[p + 1] << 16) | (b[p + 2] << 8) | b[p + 3]) + 128 + 16384 + 2097152, p + 4
    need(5); return ((b[p + 1] << 24) | (b[p + 2] << 16) | (b[p + 3] << 8) | b[p + 4]) + 128 + 16384 + 2097152 + 268435456, p + 5


def zz_dec(x, prev):
    if x >= 2 * prev:
        return x
    return (2 * prev - x) // 2 if x & 1 else (x + 2 * prev) // 2


def base64_id(n):
    digits = "0123456789ABCDEFGHIJKLMNOPQRSTUVWXYZabcdefghijklmnopqrstuvwxyz_#"
    s = ""
    while True:
        s += digits[n % 64]; n //= 64
        if n == 0:
            return s


def tuples_to_bytes(t):
    if not t:
        raise FormatError("tuples: empty")
    marker = t[-1]; n = marker >> 4; trailing = marker & 0xF
    if n == 1:
        return list(t[:-1])
    mx = {2: 16, 3: 6, 4: 4}.get(n)
    if mx is None:
        raise FormatError(f"tuples: bad marker {marker:#x}")
    out_len = (len(t) - 2) * n + trailing
    out = [0] * out_len
    i = j = 0
    while j + n <= out_len:
        c = t[i]
        for q in range(n - 1, -1, -1):
            out[j + q] = c % mx; c //= mx
        i += 1; j += n
    r = out_len % n
    if r:
        c = t[i]
        for q in range(r - 1, -1, -1):
            out[j + q] = c % mx; c //= mx
    return out


class Agc:
    def __init__(self, file, zstd_decode):
        """file: list/bytes of the archive; zstd_decode(frame bytes) -> list of bytes (raises FormatError)"""
        self.file = list(file); self.zd = zstd_decode
        n = len(self.file)
        if n < 8:
            raise FormatError("file shorter than the footer length field")
        fsz = int.from_bytes(bytes(self.file[n - 8:]), "little")
        if fsz > n - 8:
            raise FormatError("footer size exceeds file")
        footer = self.file[n - 8 - fsz:n - 8]
        p = 0
        ns, p = be_int(footer, p)
        self.streams = {}; self.order = []
        for _ in range(ns):
            name, p = cstr(footer, p)
            np_, p = be_int(footer, p); _raw, p = be_int(footer, p)
            parts = []
            for _ in range(np_):
                off, p = be_int(footer, p); sz, p = be_int(footer, p)
                parts.append((off, sz))
            if name in self.streams:
                raise FormatError(f"duplicate stream {name}")
            self.streams[name] = parts; self.order.append(name)
        if p != len(footer):
            raise FormatError("footer: trailing bytes")
        self.load_params(); self.load_collection()

    def n_parts(self, stream):
        return len(self.streams[stream]) if stream in self.streams else None

    def part(self, stream, idx):
        if stream not in self.streams:
            raise FormatError(f"stream {stream} not in directory")
        parts = self.streams[stream]
        if idx >= len(parts):
            raise FormatError(f"stream {stream}: no part {idx} (has {len(parts)})")
        off, sz = parts[idx]
        meta, p = be_int(self.file, off)
        return self.file[p:p + sz], meta          # sz counts the data bytes (the metadata integer precedes them)

    def zstd_exact(self, data, raw, what):
        out = self.zd(data)
        if len(out) != raw:
            raise FormatError(f"{what}: metadata says {raw}, decoded {len(out)} bytes")
        return out

    def load_params(self):
        d, _ = self.part(b"params", 0)
        if len(d) < 16:
            raise FormatError("params too short")
        u = lambda i: int.from_bytes(bytes(d[4 * i:4 * i + 4]), "little")
        self.k, self.min_match, self.pack_card, self.seg_size = u(0), u(1), u(2), u(3)

    def load_collection(self):
        d, raw = self.part(b"collection-samples", 0)
        d = self.zstd_exact(d, raw, "collection-samples")
        ns, p = cvar(d, 0)
        names = []
        for _ in range(ns):
            nm, p = cstr(d, p); names.append(nm)
        nb = self.n_parts(b"collection-contigs")
        if nb is None:
            raise FormatError("no collection-contigs")
        if self.n_parts(b"collection-details") != nb:
            raise FormatError("contigs/details batch count differs")
        self.samples = []; si = 0
        for b in range(nb):
            d, raw = self.part(b"collection-contigs", b)
            d = self.zstd_exact(d, raw, "collection-contigs")
            n_in_batch, p = cvar(d, 0)
            batch = []
            for i in range(n_in_batch):
                nc, p = cvar(d, p)
                prev = []; contigs = []
                for _ in range(nc):
                    enc, p = cstr(d, p)
                    cur = [bytes(x) for x in enc.split(b" ")]
                    if len(cur) != len(prev):
                        name = enc
                    else:
                        for ci, comp in enumerate(cur):
                            if len(comp) == 1 and comp[0] == 0x81:
                                cur[ci] = prev[ci]
                            else:
                                out = b""; pi = 0
                                for c in comp:
                                    if c < 0x80:
                                        out += bytes([c]); pi += 1
                                    else:
                                        cnt = 256 - c
                                        out += prev[ci][pi:pi + cnt]; pi += cnt
                                cur[ci] = out
                        name = b" ".join(cur)
                    prev = cur
                    contigs.append((name, []))
                if si + i >= len(names):
                    raise FormatError("more samples in contig batches than sample names")
                batch.append((names[si + i], contigs))
            d, _ = self.part(b"collection-details", b)
            p = 0; sizes = []
            for _ in range(5):
                a, p = cvar(d, p); c, p = cvar(d, p); sizes.append((a, c))
            st = []
            for i, (a, c) in enumerate(sizes):
                if p + c > len(d):
                    raise FormatError(f"details sub-stream {i} overruns part")
                st.append(self.zstd_exact(d[p:p + c], a, f"details sub-stream {i}")); p += c
            if p != len(d):
                raise FormatError("details: trailing bytes")
            nsb, p0 = cvar(st[0], 0)
            if nsb != n_in_batch:
                raise FormatError("details: sample count differs from contigs batch")
            ps = [0] * 5; last = {}
            pred = self.seg_size + self.k
            for s in batch:
                nc, p0 = cvar(st[0], p0)
                if nc != len(s[1]):
                    raise FormatError("details: contig count differs")
                counts = []
                for _ in range(nc):
                    c, p0 = cvar(st[0], p0); counts.append(c)
                for ci, cnt in enumerate(counts):
                    for _ in range(cnt):
                        g, ps[1] = cvar(st[1], ps[1]); e_in, ps[2] = cvar(st[2], ps[2]); e_len, ps[3] = cvar(st[3], ps[3]); rc, ps[4] = cvar(st[4], ps[4])
                        prv = last.get(g, -1)
                        in_g = e_in if prv == -1 else (0 if e_in == 0 else (prv + 1 if e_in == 1 else zz_dec(e_in - 1, prv + 1)))
                        raw_len = zz_dec(e_len, pred)
                        if in_g > prv and in_g > 0:
                            last[g] = in_g
                        s[1][ci][1].append((g, in_g, rc != 0, raw_len))
            for i in range(1, 5):
                if ps[i] != len(st[i]):
                    raise FormatError(f"details sub-stream {i}: trailing bytes")
            si += n_in_batch
            self.samples.extend(batch)
        if si != ns:
            raise FormatError("sample count mismatch")

    def unpack_part(self, stream, idx):
        d, meta = self.part(stream, idx)
        if meta == 0:
            return list(d)
        if not d:
            raise FormatError("empty packed part")
        marker = d[-1]; d = d[:-1]
        what = f"{stream}[{idx}]"
        if marker == 0:
            return self.zstd_exact(d, meta, what)
        if marker == 1:
            b = tuples_to_bytes(self.zd(d))
            if len(b) != meta:
                raise FormatError(f"{what}: metadata {meta} != unpacked {len(b)}")
            return b
        raise FormatError(f"{what}: unknown marker byte {marker}")

    def pack_entry(self, stream, pack, entry):
        d = self.unpack_part(stream, pack)
        if not d or d[-1] != SEP:
            raise FormatError(f"{stream}[{pack}]: pack not 0xFF-terminated")
        entries = bytes(d[:-1]).split(bytes([SEP]))
        if len(entries) > PACK:
            raise FormatError(f"{stream}[{pack}]: {len(entries)} entries > 50")
        if entry >= len(entries):
            raise FormatError(f"{stream}[{pack}]: no entry {entry} (has {len(entries)})")
        return list(entries[entry])

    def lz_decode(self, reference, enc):
        out = []; pred = 0; i = 0

        def read_int():
            nonlocal i
            neg = i < len(enc) and enc[i] == 45
            if neg:
                i += 1
            x = 0
            while i < len(enc) and 48 <= enc[i] <= 57:
                x = x * 10 + enc[i] - 48; i += 1
            return -x if neg else x
        while i < len(enc):
            c = enc[i]
            if c == 33:
                if pred >= len(reference):
                    raise FormatError("lz: '!' beyond reference")
                out.append(reference[pred]); pred += 1; i += 1
            elif c >= 65:
                out.append(c - 65); pred += 1; i += 1
            elif c == 30:
                i += 1
                n = read_int() + 4
                if i >= len(enc) or enc[i] != 4:
                    raise FormatError("lz: N-run not terminated by N code")
                i += 1
                out += [4] * n
            else:
                pos = pred + read_int()
                if i < len(enc) and enc[i] == 46:
                    i += 1
                    if pos > len(reference) or pos < 0:
                        raise FormatError("lz: pos beyond ref")
                    ln = len(reference) - pos
                elif i < len(enc) and enc[i] == 44:
                    i += 1
                    ln = read_int() + self.min_match
                    if i >= len(enc) or enc[i] != 46:
                        raise FormatError("lz: match not terminated by '.'")
                    i += 1
                else:
                    raise FormatError("lz: malformed match")
                if pos < 0 or pos + ln > len(reference):
                    raise FormatError("lz: match beyond reference")
                out += reference[pos:pos + ln]; pred = pos + ln
        return out

    def segment(self, s):
        g, in_g, rev, raw_len = s
        sid = base64_id(g).encode()
        if g < NO_RAW_GROUPS:
            stream = b"x" + sid + b"d"
            ph = self.pack_entry(stream, 0, 0)
            if ph != [0x7F]:
                raise FormatError(f"{stream}: raw-group placeholder entry is {ph}")
            if in_g == 0:
                raise FormatError("raw group: descriptor points at placeholder")
            out = self.pack_entry(stream, in_g // PACK, in_g % PACK)
        else:
            rs = b"x" + sid + b"r"
            if self.n_parts(rs) != 1:
                raise FormatError(f"{rs}: expected exactly one reference part, got {self.n_parts(rs)}")
            reference = self.unpack_part(rs, 0)
            if in_g == 0:
                out = reference
            else:
                i = in_g - 1
                enc = self.pack_entry(b"x" + sid + b"d", i // PACK, i % PACK)
                out = reference if not enc else self.lz_decode(reference, enc)
        if len(out) != raw_len:
            raise FormatError(f"group {g} id {in_g}: descriptor raw_length {raw_len} != decoded length {len(out)}")
        return out

    def contig(self, segs):
        out = []
        for i, s in enumerate(segs):
            d = self.segment(s)
            if s[2]:
                d = [3 - b if b < 4 else b for b in reversed(d)]
            out += d if i == 0 else d[self.k:]
        return out

    def all_samples(self):
        return [(nm, [(cn, self.contig(segs)) for cn, segs in cs]) for nm, cs in self.samples]
