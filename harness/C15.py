"""C15 — write failures during create are reported, never swallowed (Archive level).
E2 (mirsym): the real Archive writer runs an operation sequence on the symbolic file system with a fault offset phi:
the underlying File write that would cover byte phi fails (ENOSPC/EFBIG) at whichever write_all/flush drains the
buffer. The tail of create (flush_buffers()?; close()?) is replayed by the harness. Success may only be reported
when no write failed and the file on disk is the complete archive. Plus a structural slice of finalize's MIR:
the results of flush_buffers and close must flow into its return value."""
import re, z3
from mirsym.values import *
from harness.base import Instance, run_instances
from harness.C13 import Ops, Model, COMMON, PATH, NAMES
from lib import common

CORE = "ragc-core"


class Fault(Ops):
    def __init__(self, name, nops, maxbytes, cap):
        Ops.__init__(self, name, nops, 16, datalens=(0, 2), nreads=0)
        self.maxbytes, self.cap = maxbytes, cap
        self.required_witnesses = ("fault_reported", "no_fault_success")
        self.bounds = {"operations": f"every sequence of <= {nops} writer operations (as C13), then flush_buffers()?; close()?; drop",
                       "fault_offset": f"every phi in 0..{maxbytes} (phi >= bytes written means no fault)", "BufWriter_capacity": cap or "4 MiB (as in the code)"}

    def path(self, e):
        from mirsym import models_io
        e.fs = models_io.FS()
        phi = e.choose(self.maxbytes + 1, "phi")
        e.fs.fault_at = phi
        e.bufwriter_cap = self.cap
        arc = Cell(e.call_fn(COMMON, "Archive::new_writer", [])); ar = Ref(arc)
        r = e.call_fn(COMMON, "Archive::open", [ar, e.str_slice(PATH)])
        e.prove(r.variant == 0, "fault:open", "open(create) failed although creation is not faulted")
        model = Model()
        failed = False
        try:
            self.do_ops(e, ar, model)
        except PropertyViolation as pv:
            if pv.role != "archive:write_failed":
                raise
            failed = True          # an add_part / flush_buffers reported the failure: create would return Err here
        if not failed:
            r1 = e.call_fn(COMMON, "Archive::flush_buffers", [ar]); model.flush()
            if r1.variant == 1:
                failed = True
            else:
                r2 = e.call_fn(COMMON, "Archive::close", [ar])
                failed = r2.variant == 1
        e.call_fn(COMMON, "<Archive as Drop>::drop", [ar])
        e.inputs["phi"] = phi
        if failed:
            e.prove(e.fs.faulted, "fault:spurious_error", "the writer reported an error although no write failed")
            e.witness("fault_reported")
            return None
        e.prove(not e.fs.faulted, "fault:swallowed", f"a write failed at offset {phi} but add_part/flush_buffers/close all returned Ok")
        e.witness("no_fault_success")
        # success: the file on disk must be the complete archive
        e.fs.fault_at = None
        rdc = Cell(e.call_fn(COMMON, "Archive::new_reader", [])); rd = Ref(rdc)
        r = e.call_fn(COMMON, "Archive::open", [rd, e.str_slice(PATH)])
        e.prove(r.variant == 0, "fault:swallowed", "success reported but the file cannot be reopened")
        ns = e.call_fn(COMMON, "Archive::get_num_streams", [rd])
        e.prove(e.binop("Eq", ns, Int(64, 0, len(model.names))), "fault:swallowed", "success reported but the stream directory is incomplete")
        for sid in range(len(model.names)):
            np_ = e.call_fn(COMMON, "Archive::get_num_parts", [rd, Int(64, 0, sid)])
            e.prove(e.binop("Eq", np_, Int(64, 0, len(model.parts[sid]))), "fault:swallowed", f"success reported but stream {sid} lost parts")
        return None

    def classify_panic(self, e, ex):
        return f"fault:panic:{ex.where.split('::')[-1]}:{ex.kind}", str(ex)

    def native(self, inp):
        cmd, case = Ops.native(self, inp)
        case["phi"] = inp.get("phi", 0)
        case["cap"] = self.cap
        return "archive_fault", case

    def concrete_cases(self, rnd):
        return []


def finalize_slice():
    """Structural check on the MIR of StreamingQueueCompressor::finalize: the Results of Archive::flush_buffers and
    Archive::close are consumed only by Context::context -> Try::branch, and the Break arm returns through from_residual."""
    from mirsym.mirparse import Program
    prog = Program({"ragc-core": common.mir_dump("ragc-core")}, common.REPO)
    problems, found = [], 0
    for (cr, name), f in prog.funcs.items():
        if not name.endswith("::finalize") or "agc_compressor" not in name:
            continue
        prog.parse_body(f)
        blocks = f.raw
        for bb, stmts in blocks.items():
            t = stmts[-1]
            m = re.match(r"^(_\d+) = Archive::(flush_buffers|close)\(.*\) -> \[return: (bb\d+)", t)
            if not m:
                continue
            found += 1
            loc, what, nxt = m.group(1), m.group(2), m.group(3)
            ok_chain = False
            cur, var = nxt, loc
            for _ in range(6):
                body = blocks[cur]
                term = body[-1]
                uses = [s for s in body if re.search(r"\b(move|copy) " + var + r"\b", s)]
                if any(s.startswith("drop(" + var) for s in body) or not uses:
                    break
                m2 = re.match(r"^(_\d+) = .*(Context<.*>>::context|Try>::branch).*\((?:move|copy) " + var + r"\b.*-> \[return: (bb\d+)", term)
                if m2 and uses == [term]:
                    if "Try>::branch" in term:
                        ok_chain = True
                        break
                    var, cur = m2.group(1), m2.group(3)
                    continue
                # plain moves
                mv = [re.match(r"^(_\d+) = move " + var + r"$", s) for s in body[:-1]]
                mv = [x for x in mv if x]
                if mv:
                    var = mv[0].group(1); continue
                break
            if not ok_chain:
                problems.append(f"result of Archive::{what} in {name} {bb} does not flow into `?`")
    return found, problems


INSTANCES = {}


def _reg(i):
    INSTANCES[i.name] = i
    return i


QUICK = [_reg(Fault("cap4m", 2, 40, None)).name, _reg(Fault("cap8", 2, 40, 8)).name]
THOROUGH = [_reg(Fault("T_cap4m", 3, 60, None)).name, _reg(Fault("T_cap8", 3, 60, 8)).name, _reg(Fault("T_cap1", 2, 40, 1)).name]

# Pipeline level (harness/pipe.py): the whole real create path — constructor, worker threads, push, finalize (partial packs, collection,
# params, flush_buffers, close) — with the first failing write at EVERY offset of the archive it writes; finalize must return Err.
from harness.pipe import Pipeline, SPL, TWO, THREE


def _pf(name, threads, samples, **kw):
    i = Pipeline(name, threads, samples, splitters=SPL, view="fault", preempt=0, **kw)
    i.required_witnesses = ("no_fault_ok", "faulted", "error_reported")
    return _reg(i)


QUICK.append(_pf("pipe_fault_api_t1", 1, TWO).name)
THOROUGH += [_pf("T_pipe_fault_multi_t2", 2, THREE, driver="multi").name, _pf("T_pipe_fault_api_t1_store", 1, TWO, zstd="store").name]


def run(ctx):
    insts = [INSTANCES[n] for n in (QUICK if ctx["tier"] == "quick" else THOROUGH)]
    res = run_instances("C15", "harness.C15", insts, ctx,
                        assumptions=["the first failing write(2) at byte offset phi makes that and every later write fail (disk full / file size limit)",
                                     "BufWriter semantics: bytes are handed to the file when the buffer fills or on flush; BufWriter::drop ignores errors (std)",
                                     "pipeline-level instances (pipe_fault_*): concrete small inputs, one canonical schedule, BufWriter with its real 4 MiB capacity (everything reaches the file at flush/close), ZSTD stub: the offsets are those of the model's archive; process exit plumbing (main.rs) is outside"])
    found, problems = finalize_slice()
    res["coverage"]["finalize_slice"] = {"archive_result_sites": found, "problems": problems}
    if found < 2:
        res["inconclusive"].append("finalize slice: flush_buffers/close call sites not found in finalize's MIR")
    for p in problems:
        res["violations"].append({"role": "fault:finalize_drops_result", "desc": p, "replay": None, "confirmed": True})
    return res
