"""C01 — lossless round trip, kernel level. E2 (mirsym) over the chain of identities the pipeline composes:
 (1) tile + re-orient + re-assemble: real segmentation (all splitter sets) -> every segment optionally stored
     reverse-complemented by the WRITER-side routines (reverse_complement_sequence, the precomputed data_rc closure of the
     worker) -> real Decompressor::reconstruct_contig returns the contig,
 (2) split of a segment at a missing splitter: split_segment_at_position on every position find_split_by_cost can return
     (post-condition of find_split_by_cost checked on symbolic cost vectors) gives two parts with exact k overlap.
LZ (C09), pack/catalogue codecs (C02/C03), tuple/ZSTD (C12), segmentation (C10) are the remaining links."""
import re, z3
from mirsym.values import *
from mirsym.values import b_and, b_or, b_not, mkbool
from harness.base import Instance, run_instances
from harness.C10 import SplitterOracle, IS_SPLITTER, pack_window

CORE = "ragc-core"


def find_data_rc_closure(e):
    """The worker's precomputed reverse-complement closure: (&mut closure, &u8) -> u8 in agc_compressor.rs whose body
    switches on the base with the arms 0,1,2,3."""
    out = []
    for (cr, name), f in e.p.funcs.items():
        if cr != CORE or "{closure#" not in name or "agc_compressor" not in (f.args[0][1] if f.args else ""):
            continue
        if len(f.args) != 2 or f.args[1][1] != "&u8" or f.ret != "u8":
            continue
        e.p.parse_body(f)
        txt = " ".join(t for b in f.raw.values() for t in b)
        if re.search(r"switchInt\([^)]*\) -> \[0: bb\d+, 1: bb\d+, 2: bb\d+, 3: bb\d+, otherwise", txt):
            out.append(f)
    return out


class Reassemble(Instance):
    def __init__(self, name, k, maxlen, alpha, writer):
        Instance.__init__(self, name)
        self.k, self.maxlen, self.alpha, self.writer = k, maxlen, alpha, writer
        self.required_witnesses = ("multi_segment", "reversed_segment")
        self.bounds = {"k": k, "contig": f"every contig of length 0..{maxlen} over codes {alpha}", "splitter_set": "all sets (uninterpreted predicate)",
                       "orientation": "every segment stored forward or reverse-complemented (symbolic flag)", "writer_rc": writer}

    def setup(self, e):
        def get_segment(e_, c, a):
            d = e_.load(a[1])
            return ok(VecObj(list(e_.h["stored"][e_.field(d, "SegmentDesc", "in_group_id").v])))
        e.stub(r"(^|::)Decompressor::get_segment$", get_segment)

    def writer_rc(self, e, data):
        if self.writer == "reverse_complement_sequence":
            return e.vec_items(e.call_fn(CORE, "reverse_complement_sequence", [e.slice_of(data)]))
        fs = find_data_rc_closure(e)
        if len(fs) < 1:
            raise Unsupported("data_rc closure not found in the worker's MIR")
        out = []
        for f in fs[:1]:
            clo = Cell(Agg([], ty="closure"))
            for b in reversed(data):
                out.append(e.run_func(f, [Ref(clo), Ref(Cell(b))]))
        return out

    def path(self, e):
        k = self.k
        n = e.choose(self.maxlen + 1, "n")
        c = e.sym_bytes("c", n, among=self.alpha)
        conc = e.concrete is not None
        oracle = SplitterOracle(set(e.concrete["splitters"]) if conc else None)
        segs = e.call_fn(CORE, "split_at_splitters_with_size", [Ref(Cell(VecObj(list(c)))), Ref(Cell(oracle)), Int(64, 0, k), Int(64, 0, 1000)])
        S = e.vec_items(segs)
        stored, descs, flags = [], [], []
        for i, s in enumerate(S):
            data = e.vec_items(s.f[0])
            f = e.sym_bool(f"rc{i}")
            if e.branch(f):
                st = self.writer_rc(e, data); e.witness("reversed_segment")
            else:
                st = list(data)
            stored.append(st); flags.append(f)
            descs.append(e.struct("SegmentDesc", group_id=Int(32, 0, 16 + i), in_group_id=Int(32, 0, i), is_rev_comp=f, raw_length=Int(32, 0, len(st))))
        if len(S) > 1:
            e.witness("multi_segment")
        e.h = {"stored": stored}
        dec = e.struct("Decompressor", config=e.struct("DecompressorConfig", verbosity=Int(32, 0, 0)), archive=Opaque("archive"), collection=Opaque("collection"),
                       segment_cache=Opaque("cache"), _segment_size=Int(32, 0, 0), kmer_length=Int(32, 0, k), min_match_len=Int(32, 0, 20), archive_path=VecObj([], "String"))
        r = e.call_fn(CORE, "Decompressor::reconstruct_contig", [Ref(Cell(dec)), e.slice_of(descs)])
        if conc:
            return {"ok": r.variant == 0, "contig": [x.v for x in e.vec_items(r.f[0])] if r.variant == 0 else None}
        e.prove(r.variant == 0, "rt:reconstruct_failed", "reconstruct_contig returned Err for segments produced by the writer")
        out = e.vec_items(r.f[0])
        e.prove(len(out) == n, "rt:length", f"re-assembled contig has {len(out)} bases, input has {n}")
        e.prove(e.eq_bytes(out, c), "rt:bases", "re-assembled contig differs from the input (orientation / overlap bookkeeping)")
        return None

    def classify_panic(self, e, ex):
        return f"rt:panic:{ex.where.split('::')[-1]}:{ex.kind}", str(ex)

    def native(self, inp):
        spl = sorted({w[0] for w in inp.get("queried", []) if w[1]})
        flags = [bool(inp[f"rc{i}"]) for i in range(64) if f"rc{i}" in inp]
        return "reassemble", {"k": self.k, "contig": inp["c"], "splitters": [str(x) for x in spl], "flags": flags, "writer": self.writer}

    def concrete_cases(self, rnd):
        return []


class SplitAt(Instance):
    """split_segment_at_position over every position that find_split_by_cost may return (k+1 <= p <= n-k-1)."""
    def __init__(self, name, ks, maxlen):
        Instance.__init__(self, name)
        self.ks, self.maxlen = ks, maxlen
        self.required_witnesses = ("split",)
        self.bounds = {"k": ks, "segment": f"length 2k+2..{maxlen}, symbolic bytes", "split_pos": "symbolic in [k+1, n-k-1] (the range find_split_by_cost returns, checked by the costs_* instance)"}

    def path(self, e):
        k = self.ks[e.choose(len(self.ks), "k_i")]; e.inputs["k"] = k
        n = 2 * k + 2 + e.choose(self.maxlen - 2 * k - 1, "nlen")
        s = e.sym_bytes("s", n)
        p = e.sym_int("p", 64, lo=k + 1, hi=n - k - 1)
        r = e.call_fn(CORE, "split_segment_at_position", [e.slice_of(s), p, Int(64, 0, k)])
        L, R = e.vec_items(r.f[0]), e.vec_items(r.f[1])
        e.witness("split")
        e.prove(len(L) >= k and len(R) >= k, "rt:split_overlap", f"a split part is shorter than k ({len(L)}, {len(R)})")
        e.prove(len(L) + len(R) - k == n, "rt:split_overlap", f"parts of {len(L)} and {len(R)} bases do not overlap by exactly k={k} (segment {n})")
        e.prove(e.eq_bytes(L + R[k:], s), "rt:split_overlap", "left ++ right[k..] != segment")
        e.prove(e.eq_bytes(L[len(L) - k:], R[:k]), "rt:split_overlap", "the k-base overlap of the two parts differs")
        return None

    def classify_panic(self, e, ex):
        return f"rt:panic:{ex.where.split('::')[-1]}:{ex.kind}", str(ex)

    def native(self, inp):
        return "split_at", {"s": inp["s"], "p": inp["p"], "k": inp["k"]}


class SplitCost(Instance):
    """Post-condition of find_split_by_cost with LZ cost vectors replaced by arbitrary symbolic vectors."""
    def __init__(self, name, k, lens):
        Instance.__init__(self, name)
        self.k, self.lens = k, lens
        self.required_witnesses = ("split_at", "assign")
        self.bounds = {"k": k, "segment_length": lens, "cost_vectors": "arbitrary symbolic u32 vectors (LZDiff::get_coding_cost_vector stubbed)", "kmer order": "all orderings of front/middle/back"}

    def setup(self, e):
        def costs(e_, c, a):
            n = len(e_.vec_items(e_.load(a[1])))
            e_.h["nvec"] = e_.h.get("nvec", 0) + 1
            return VecObj([e_.sym_int(f"cost{e_.h['nvec']}_{i}", 32, hi=1 << 16) for i in range(n)])
        e.stub(r"(^|::)LZDiff::get_coding_cost_vector$", costs)
        e.stub(r"(^|::)LZDiff::prepare$", lambda e_, c, a: UNIT)

    def path(self, e):
        k = self.k
        n = self.lens[e.choose(len(self.lens), "n_i")]; e.inputs["n"] = n
        seg = [Int(8, 0, i % 4) for i in range(n)]
        kf, km, kb = e.sym_int("kf", 64, hi=3), e.sym_int("km", 64, hi=3), e.sym_int("kb", 64, hi=3)
        ref = [Int(8, 0, 1)] * 3
        r = e.call_fn(CORE, "find_split_by_cost", [e.slice_of(seg), e.slice_of(list(reversed(seg))), e.slice_of(ref), e.slice_of(ref), kf, kb, km, Int(64, 0, k), Int(32, 0, 20)])
        name = e.p.enums["SplitDecision"][r.variant]
        if name == "SplitAt":
            p = r.f[0]; e.witness("split_at")
            e.prove(b_and(e.binop("Ge", p, Int(64, 0, k + 1)), e.binop("Le", p, Int(64, 0, n - k - 1))), "rt:split_position",
                    f"find_split_by_cost returned a split position outside [k+1, n-k-1] (n={n}, k={k})")
        elif name in ("AssignToLeft", "AssignToRight"):
            e.witness("assign")
        else:
            e.prove(n < 2 * (k + 1), "rt:split_position", "NoDecision although the segment is long enough and references are non-empty")
        return None

    def classify_panic(self, e, ex):
        return f"rt:panic:{ex.where.split('::')[-1]}:{ex.kind}", str(ex)


INSTANCES = {}


def _reg(i):
    INSTANCES[i.name] = i
    return i


AL = [0, 1, 2, 3, 4, 5, 15, 30]
QUICK = [_reg(Reassemble("tile_rcseq_k2", 2, 5, AL, "reverse_complement_sequence")).name, _reg(Reassemble("tile_datarc_k2", 2, 5, AL, "data_rc closure")).name,
         _reg(SplitAt("split_at", [1, 2, 3, 4], 12)).name, _reg(SplitCost("costs_k2", 2, [6, 7, 8])).name]
THOROUGH = [_reg(Reassemble("T_tile_rcseq_k2", 2, 7, AL, "reverse_complement_sequence")).name, _reg(Reassemble("T_tile_rcseq_k3", 3, 7, AL, "reverse_complement_sequence")).name,
            _reg(Reassemble("T_tile_datarc_k1", 1, 6, AL, "data_rc closure")).name, _reg(Reassemble("T_tile_datarc_k3", 3, 7, AL, "data_rc closure")).name,
            _reg(SplitAt("T_split_at", [1, 2, 3, 4, 5, 8], 20)).name, _reg(SplitCost("T_costs_k3", 3, [8, 9, 10, 11])).name]


# ---------------------------------------------------------------------------------------------------------------
# (3) pack bookkeeping of the writer (ids, packs, per-pack de-duplication) as an inductive step: shared with C02 (harness/C02.py PackStep)
# (4) the whole pipeline on small concrete samples under every schedule within the preemption bound: create -> extract returns every
#     sample exactly (shared groups, reverse-complemented contig, IUPAC codes, N-run, contig shorter than k, identical contigs)
from harness import C02 as _C02
from harness.pipe import Pipeline, SPL, C1, C2, C3, TWO as _TWO0


def _alias(inst, name):
    import copy
    j = copy.copy(inst); j.name = name
    return _reg(j)


from harness.pipe import RICH
QUICK += [_alias(_C02.INSTANCES["pack_raw"], "pack_raw").name, _alias(_C02.INSTANCES["pack_lz"], "pack_lz").name,
          _reg(Pipeline("pipe_rt_api_t1", 1, RICH, splitters=SPL, preempt=0, driver="api")).name,
          _reg(Pipeline("pipe_rt_multi_t2", 2, RICH, splitters=SPL, preempt=0, driver="multi", cross=True)).name]
THOROUGH += ["pack_raw", "pack_lz", _reg(Pipeline("T_pipe_rt_api_t2_p1", 2, _TWO0, splitters=SPL, preempt=1, driver="api")).name,
             _reg(Pipeline("T_pipe_rt_multi_t2_store", 2, RICH, splitters=SPL, preempt=0, driver="multi", zstd="store")).name,
             _reg(Pipeline("T_pipe_rt_single_t2", 2, RICH, splitters=SPL, preempt=0, driver="single", pack_size=Int(64, 0, 3))).name]
# (5) symbolic edit scripts through the whole pipeline: the second sample's contig is the reference contig with one substitution at EVERY
#     position with EVERY code (incl. N, an IUPAC code, the unknown-letter code 30); T: whole-contig reverse complement x one deletion x one insertion
from harness.pipe import TWO as _TWO
QUICK.append(_reg(Pipeline("pipe_edit_subst_t1", 1, _TWO, splitters=SPL, preempt=0, driver="api", edits=[("subst", 1, 0)])).name)
# a deleted range of 2..8 bases at every position, the contig forward or reverse-complemented (missing splitters, whole-segment assignment to a neighbour group)
QUICK.append(_reg(Pipeline("pipe_edit_delrange_rc_t1", 1, _TWO, splitters=SPL, preempt=0, driver="api", edits=[("rc", 1, 0), ("delrange", 1, 0)])).name)
THOROUGH.append("pipe_edit_delrange_rc_t1")
# the same families through the multi-file driver: the reference sample's groups and terminators exist when the edited sample is
# classified, so segments spanning a missing splitter are split by cost or assigned whole to a neighbour group
QUICK.append(_reg(Pipeline("pipe_edit_delrange_rc_multi_t1", 1, _TWO, splitters=SPL, preempt=0, driver="multi", edits=[("rc", 1, 0), ("delrange", 1, 0)])).name)
QUICK.append(_reg(Pipeline("pipe_edit_subst_multi_t1", 1, _TWO, splitters=SPL, preempt=0, driver="multi", edits=[("subst", 1, 0)])).name)
THOROUGH += ["pipe_edit_delrange_rc_multi_t1", "pipe_edit_subst_multi_t1"]
from harness.pipe import MID as _MID, SPL3 as _SPL3, MID_ALTS as _MID_ALTS
QUICK.append(_reg(Pipeline("pipe_mid_subst_multi_t1", 1, _MID, splitters=_SPL3, preempt=0, driver="multi", edits=[("rc", 1, 0), ("subst", 1, 0)], sym_alpha=(0, 1, 2, 3, 4), alts=_MID_ALTS, cross=True)).name)
QUICK.append(_reg(Pipeline("pipe_mid_delrange_multi_t1", 1, _MID, splitters=_SPL3, preempt=0, driver="multi", edits=[("rc", 1, 0), ("delrange", 1, 0)], alts=_MID_ALTS)).name)
THOROUGH += ["pipe_mid_subst_multi_t1", "pipe_mid_delrange_multi_t1"]
from harness import pipe as _pipe
INSTANCES["nrun_subst_multi_t1"] = _pipe.INSTANCES["nrun_subst_multi_t1"]
QUICK.append("nrun_subst_multi_t1"); THOROUGH.append("nrun_subst_multi_t1")
THOROUGH += ["pipe_edit_subst_t1", _reg(Pipeline("T_pipe_edit_indel_rc_t1", 1, _TWO, splitters=SPL, preempt=0, driver="api", edits=[("rc", 1, 0), ("del", 1, 0), ("ins", 1, 0)])).name,
             _reg(Pipeline("T_pipe_edit_subst_multi_t2", 2, _TWO, splitters=SPL, preempt=0, driver="multi", edits=[("subst", 1, 0)])).name]
for _n in ("pipe_rt_api_t1", "pipe_rt_multi_t2", "T_pipe_rt_api_t2_p1", "T_pipe_rt_multi_t2_store", "T_pipe_rt_single_t2", "pipe_edit_subst_t1", "T_pipe_edit_indel_rc_t1", "T_pipe_edit_subst_multi_t2", "pipe_edit_delrange_rc_t1", "pipe_edit_delrange_rc_multi_t1", "pipe_edit_subst_multi_t1", "pipe_mid_subst_multi_t1", "pipe_mid_delrange_multi_t1"):
    INSTANCES[_n].required_witnesses = ("finalized", "extracted")


def run(ctx):
    insts = [INSTANCES[n] for n in (QUICK if ctx["tier"] == "quick" else THOROUGH)]
    return run_instances("C01", "harness.C01", insts, ctx,
                         assumptions=["kernel-level instances cover all inputs within their bounds; the pipeline-level instances (pipe_rt_*) run the whole real create->extract path on small CONCRETE samples (k=3, contigs <= 21 bases) under every schedule within the preemption bound, with a deterministic lossless ZSTD stub",
                                      "get_segment returns the stored bytes (LZ: C09, packs/catalogue: C02/C03, tuple/ZSTD: C12)",
                                      "find_split_by_cost is checked with arbitrary cost vectors in place of LZDiff::get_coding_cost_vector"])
