"""C13 — the archive container returns exactly what was stored.
E2 (mirsym) over the real Archive writer and reader MIR (+ varint codec) on a symbolic in-memory file:
all operation sequences up to the bound, symbolic part bytes / metadata / raw sizes, reopen, reads in a chosen order,
compared with an independent model of the container contract."""
import z3
from mirsym.values import *
from mirsym.values import b_and, b_or, b_not
from harness.base import Instance, run_instances

COMMON = "ragc-common"
NAMES = [b"a", b"x7d", b"a"]        # third registration repeats the first name (must return the same id)
PATH = b"/sym/archive.agc"


class Model:
    """Independent statement of the container contract."""
    def __init__(self):
        self.names, self.parts, self.buf, self.raw = [], [], {}, []
        self.order = []          # parts in the order they reach the file

    def register(self, name):
        if name in self.names:
            return self.names.index(name)
        self.names.append(name); self.parts.append([]); self.raw.append(Int(64, 0, 0))
        return len(self.names) - 1

    def add(self, sid, data, meta):
        self.parts[sid].append((data, meta)); self.order.append((sid, data, meta))

    def add_buffered(self, sid, data, meta):
        self.buf.setdefault(sid, []).append((data, meta))

    def flush(self):
        for sid in sorted(self.buf):
            for d, m in self.buf[sid]:
                self.parts[sid].append((d, m)); self.order.append((sid, d, m))
        self.buf = {}


def spec_varint(e, v):
    """Format rule: [n][n bytes big-endian], n minimal (0 for the value 0)."""
    if isinstance(v, int):
        v = Int(64, 0, v)
    n = 0
    while n < 8 and not e.branch(e.binop("Lt", v, Int(64, 0, 1 << (8 * n)))):
        n += 1
    out = [Int(8, 0, n)]
    for i in range(n - 1, -1, -1):
        out.append(e.cast("IntToInt", e.binop("BitAnd", e.binop("Shr", v, Int(32, 0, 8 * i)), Int(64, 0, 0xFF)), "u8"))
    return out


def spec_file(e, model):
    """Independent byte image of the container: parts (varint(metadata) + data) in commit order, directory, 8-byte LE length."""
    body, offs = [], {}
    for sid, d, m in model.order:
        offs.setdefault(sid, []).append((len(body), len(d)))
        body += spec_varint(e, m) + list(d)
    foot = spec_varint(e, len(model.names))
    for sid, nm in enumerate(model.names):
        foot += [Int(8, 0, b) for b in nm] + [Int(8, 0, 0)]
        foot += spec_varint(e, len(model.parts[sid])) + spec_varint(e, model.raw[sid])
        for off, size in offs.get(sid, []):
            foot += spec_varint(e, off) + spec_varint(e, size)
    ln = len(foot)
    return body + foot + [Int(8, 0, (ln >> (8 * i)) & 0xFF) for i in range(8)]


def unwrap_ok(e, r, role, what):
    e.prove(r.variant == 0, role, what + " returned Err")
    return r.f[0]


class Ops(Instance):
    crates = ("ragc-common",)

    def __init__(self, name, nops, meta_bits, datalens=(0, 2), nreads=2, close_twice=False):
        Instance.__init__(self, name)
        self.nops, self.meta_bits, self.datalens, self.nreads = nops, meta_bits, datalens, nreads
        self.required_witnesses = ("buffered_flush", "immediate", "reread") + (("empty_part",) if 0 in datalens else ())
        self.bounds = {"operations": f"every sequence of <= {nops} operations over register(3 names, one repeated) / add_part / add_part_buffered / flush_buffers / set_raw_size, then flush_buffers + close",
                       "part_data": f"symbolic bytes, lengths {list(datalens)}", "metadata/raw_size": f"symbolic, < 2^{meta_bits}",
                       "reads": f"{nreads} arbitrary get_part/get_part_by_id calls, then every part by id and sequentially"}

    def do_ops(self, e, ar, model):
        n = e.choose(self.nops + 1, "nops")
        k = 0
        for i in range(n):
            nst = len(model.names)
            choices = [("reg", j) for j in range(len(NAMES))]
            for s in range(nst):
                for L in self.datalens:
                    choices.append(("add", s, L)); choices.append(("buf", s, L))
                choices.append(("raw", s))
            choices.append(("flush",))
            op = choices[e.choose(len(choices), f"op{i}")]
            e.inputs.setdefault("ops", []).append(None)
            if op[0] == "reg":
                nm = NAMES[op[1]]
                sid = e.call_fn(COMMON, "Archive::register_stream", [ar, e.str_slice(nm)])
                exp = model.register(nm)
                e.prove(e.binop("Eq", sid, Int(64, 0, exp)), "archive:stream_id", f"register_stream({nm!r}) returned a wrong id (expected {exp})")
                e.inputs["ops"][-1] = ["reg", nm.decode()]
            elif op[0] in ("add", "buf"):
                data = e.sym_bytes(f"d{i}", op[2]); meta = e.sym_int(f"m{i}", 64, hi=(1 << self.meta_bits) - 1)
                if op[0] == "add":
                    r = e.call_fn(COMMON, "Archive::add_part", [ar, Int(64, 0, op[1]), e.slice_of(data), meta])
                    unwrap_ok(e, r, "archive:write_failed", "add_part")
                    model.add(op[1], data, meta); e.witness("immediate")
                else:
                    e.call_fn(COMMON, "Archive::add_part_buffered", [ar, Int(64, 0, op[1]), VecObj(list(data)), meta])
                    model.add_buffered(op[1], data, meta)
                if op[2] == 0:
                    e.witness("empty_part")
                e.inputs["ops"][-1] = [op[0], op[1], data, meta]
            elif op[0] == "raw":
                rs = e.sym_int(f"r{i}", 64, hi=(1 << self.meta_bits) - 1)
                e.call_fn(COMMON, "Archive::set_raw_size", [ar, Int(64, 0, op[1]), rs])
                model.raw[op[1]] = rs
                e.inputs["ops"][-1] = ["raw", op[1], rs]
            else:
                if model.buf:
                    e.witness("buffered_flush")
                r = e.call_fn(COMMON, "Archive::flush_buffers", [ar]); unwrap_ok(e, r, "archive:write_failed", "flush_buffers")
                model.flush()
                e.inputs["ops"][-1] = ["flush"]

    def path(self, e):
        conc = e.concrete is not None
        arc = Cell(e.call_fn(COMMON, "Archive::new_writer", []))
        ar = Ref(arc)
        unwrap_ok(e, e.call_fn(COMMON, "Archive::open", [ar, e.str_slice(PATH)]), "archive:write_failed", "open(create)")
        model = Model()
        self.do_ops(e, ar, model)
        if model.buf:
            e.witness("buffered_flush")
        unwrap_ok(e, e.call_fn(COMMON, "Archive::flush_buffers", [ar]), "archive:write_failed", "flush_buffers"); model.flush()
        unwrap_ok(e, e.call_fn(COMMON, "Archive::close", [ar]), "archive:write_failed", "close")
        if not conc:
            img, exp = e.fs.files[PATH].data, spec_file(e, model)
            e.prove(len(img) == len(exp), "archive:format", f"file has {len(img)} bytes, the format rules give {len(exp)}")
            e.prove(e.eq_bytes(img, exp), "archive:format", "file bytes differ from the AGC container format (part framing / directory / footer length)")
        # ---------------- reopen
        rdc = Cell(e.call_fn(COMMON, "Archive::new_reader", []))
        rd = Ref(rdc)
        unwrap_ok(e, e.call_fn(COMMON, "Archive::open", [rd, e.str_slice(PATH)]), "archive:reopen_failed", "open(read) of a flushed+closed archive")
        ns = e.call_fn(COMMON, "Archive::get_num_streams", [rd])
        e.prove(e.binop("Eq", ns, Int(64, 0, len(model.names))), "archive:streams", f"stream count != {len(model.names)}")
        cur = [0] * len(model.names)

        def check_part(got_data, got_meta, sid, pid, what):
            d, m = model.parts[sid][pid]
            gb = e.vec_items(got_data)
            e.prove(len(gb) == len(d), "archive:part_data", f"{what}: part ({sid},{pid}) has {len(gb)} bytes, stored {len(d)}")
            e.prove(e.eq_bytes(gb, d), "archive:part_data", f"{what}: bytes of part ({sid},{pid}) differ")
            exp_m = m if len(d) > 0 else Int(64, 0, 0)
            e.prove(e.binop("Eq", got_meta, exp_m), "archive:part_metadata", f"{what}: metadata of part ({sid},{pid}) differs")

        def seq_read(sid, what):
            r = unwrap_ok(e, e.call_fn(COMMON, "Archive::get_part", [rd, Int(64, 0, sid)]), "archive:read_failed", "get_part")
            if cur[sid] >= len(model.parts[sid]):
                e.prove(r.variant == 0, "archive:part_order", f"{what}: get_part on exhausted stream {sid} returned a part")
            else:
                e.prove(r.variant == 1, "archive:part_order", f"{what}: get_part on stream {sid} returned None but part {cur[sid]} exists")
                check_part(r.f[0].f[0], r.f[0].f[1], sid, cur[sid], what); cur[sid] += 1

        def id_read(sid, pid, what):
            r = e.call_fn(COMMON, "Archive::get_part_by_id", [rd, Int(64, 0, sid), Int(64, 0, pid)])
            t = unwrap_ok(e, r, "archive:read_failed", f"get_part_by_id({sid},{pid})")
            check_part(t.f[0], t.f[1], sid, pid, what)

        # a few reads in an arbitrary order (reader state must not matter)
        slots = [(s, p) for s in range(len(model.names)) for p in range(len(model.parts[s]))]
        rlog = []
        if slots:
            for j in range(self.nreads):
                kind = e.choose(2, f"rk{j}")
                if kind == 0:
                    sid = e.choose(len(model.names), f"rs{j}"); seq_read(sid, "interleaved get_part"); rlog.append(["seq", sid])
                else:
                    sid, pid = slots[e.choose(len(slots), f"ri{j}")]; id_read(sid, pid, "interleaved get_part_by_id"); rlog.append(["id", sid, pid])
                    e.witness("reread")
        e.inputs["reads"] = rlog
        for sid, nm in enumerate(model.names):
            gid = e.call_fn(COMMON, "Archive::get_stream_id", [rd, e.str_slice(nm)])
            e.prove(gid.variant == 1 and e.binop("Eq", gid.f[0], Int(64, 0, sid)), "archive:stream_id", f"get_stream_id({nm!r}) != {sid}")
            gn = e.call_fn(COMMON, "Archive::get_stream_name", [rd, Int(64, 0, sid)])
            e.prove(gn.variant == 1 and e.eq_bytes(e.vec_items(gn.f[0]), [Int(8, 0, b) for b in nm]), "archive:stream_name", f"stream {sid} name differs")
            np_ = e.call_fn(COMMON, "Archive::get_num_parts", [rd, Int(64, 0, sid)])
            e.prove(e.binop("Eq", np_, Int(64, 0, len(model.parts[sid]))), "archive:part_count", f"stream {sid} has a wrong number of parts (stored {len(model.parts[sid])})")
            rs = e.call_fn(COMMON, "Archive::get_raw_size", [rd, Int(64, 0, sid)])
            e.prove(e.binop("Eq", rs, model.raw[sid]), "archive:raw_size", f"raw size of stream {sid} differs")
            for pid in range(len(model.parts[sid])):
                id_read(sid, pid, "get_part_by_id")
        for sid in range(len(model.names)):
            while cur[sid] < len(model.parts[sid]):
                seq_read(sid, "sequential get_part")
            seq_read(sid, "sequential get_part at end")
        return {"file": [e.eval_concrete(x) for x in e.fs.files[PATH].data]} if conc else None

    def classify_panic(self, e, ex):
        return f"archive:panic:{ex.where.split('::')[-1]}:{ex.kind}", str(ex)

    def native(self, inp):
        ops = []
        for o in inp.get("ops", []):
            if o is None:
                continue
            ops.append([str(x) if isinstance(x, int) and not isinstance(x, bool) and i_ == len(o) - 1 and o[0] in ("add", "buf", "raw") else x for i_, x in enumerate(o)])
        return "archive_ops", {"ops": ops, "reads": inp.get("reads", [])}

    def amplify(self, viol):
        """Same kind of history, larger: every registered stream (at least two) gets 24 buffered parts in round-robin order with
        distinct contents before one flush, then everything is read back sequentially."""
        names = []
        for o in viol["inputs"].get("ops", []):
            if o and o[0] == "reg" and o[1] not in names:
                names.append(o[1])
        if not any(o and o[0] == "buf" for o in viol["inputs"].get("ops", [])):
            return None
        for extra in ("zz", "yy"):
            if len(names) < 2 and extra not in names:
                names.append(extra)
        ops = [["reg", n] for n in names]
        for r in range(24):
            for sid in range(len(names)):
                ops.append(["buf", sid, [r, sid, 7], str(100 + r * len(names) + sid)])
        reads = [["seq", sid] for _ in range(25) for sid in range(len(names))]
        return "archive_ops", {"ops": ops, "reads": reads}

    def concrete_cases(self, rnd):
        """Concrete op sequences through the engine and the native build: the written FILE BYTES must be identical."""
        out = []
        for _ in range(16):
            c = {}; names = []; n = rnd.randrange(self.nops + 1); c["nops"] = n; ops = []
            for i in range(n):
                nst = len(names)
                choices = [("reg", j) for j in range(len(NAMES))]
                for s in range(nst):
                    for L in self.datalens:
                        choices.append(("add", s, L)); choices.append(("buf", s, L))
                    choices.append(("raw", s))
                choices.append(("flush",))
                k = rnd.randrange(len(choices)); op = choices[k]; c[f"op{i}"] = k
                if op[0] == "reg":
                    if NAMES[op[1]] not in names:
                        names.append(NAMES[op[1]])
                    ops.append(["reg", NAMES[op[1]].decode()])
                elif op[0] in ("add", "buf"):
                    c[f"d{i}"] = [rnd.randrange(256) for _ in range(op[2])]
                    c[f"m{i}"] = rnd.choice([0, 1, 255, 256, 65535, rnd.randrange(1 << self.meta_bits), (1 << self.meta_bits) - 1])
                    ops.append([op[0], op[1], c[f"d{i}"], str(c[f"m{i}"])])
                elif op[0] == "raw":
                    c[f"r{i}"] = rnd.randrange(1 << self.meta_bits); ops.append(["raw", op[1], str(c[f"r{i}"])])
                else:
                    ops.append(["flush"])
            for j in range(self.nreads):
                c[f"rk{j}"] = 0; c[f"rs{j}"] = 0; c[f"ri{j}"] = 0
            c["ops"] = ops; c["reads"] = []
            out.append(c)
        return out

    def compare(self, s, n):
        return s["file"] == n.get("file")


INSTANCES = {}


def _reg(i):
    INSTANCES[i.name] = i
    return i


QUICK = [_reg(Ops("ops3", 3, 16)).name, _reg(Ops("meta64", 2, 64, datalens=(1,), nreads=1)).name]
THOROUGH = [_reg(Ops("T_ops4", 4, 16, datalens=(0, 1, 3))).name, _reg(Ops("T_meta64", 3, 64, datalens=(0, 2))).name]


def run(ctx):
    insts = [INSTANCES[n] for n in (QUICK if ctx["tier"] == "quick" else THOROUGH)]
    return run_instances("C13", "harness.C13", insts, ctx,
                         assumptions=["std File/BufWriter/BufReader are modelled: bytes reach the file no later than flush; clones of a File share one offset",
                                      "stream names are printable ASCII (concrete names in the harness)"])
