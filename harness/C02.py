"""C02 — AGC v3 format conformance, kernel level. E2 (mirsym) over the real codec MIR against an independent
statement of the format rules (constants spelled out here, never imported from the repository):
 (a) length-prefixed big-endian integers (write_varint/read_varint), fixed 8-byte LE,
 (b) collection prefix varints (CollectionVarInt),
 (c) stream names x<base64 id>r / x<base64 id>d over the C++ alphabet,
 (e) the archive footer/part framing is checked byte-for-byte inside the C13 harness (role archive:format)."""
import z3
from mirsym.values import *
from mirsym.values import b_and, b_or, b_not
from mirsym.models import ite_int
from harness.base import Instance, run_instances

COMMON = "ragc-common"
B64 = b"0123456789ABCDEFGHIJKLMNOPQRSTUVWXYZabcdefghijklmnopqrstuvwxyz_#"


class Varint(Instance):
    crates = ("ragc-common",)
    required_witnesses = tuple(f"len{i}" for i in range(0, 9))
    bounds = {"value": "every u64", "functions": "write_varint, read_varint, write_fixed_u64, read_fixed_u64"}

    def path(self, e):
        from mirsym.models_io import CursorObj
        v = e.sym_int("v", 64)
        buf = Cell(VecObj([]))
        r = e.call_fn(COMMON, "write_varint", [Ref(buf), v])
        e.prove(r.variant == 0, "fmt:varint", "write_varint into a Vec returned Err")
        out = e.vec_items(buf.v)
        n = len(out) - 1
        if e.concrete is not None:
            return {"bytes": [x.v for x in out]}
        e.witness(f"len{n}")
        # format rule: [n][n bytes big-endian], n minimal
        e.prove(e.binop("Eq", out[0], Int(8, 0, n)), "fmt:varint", "first byte is not the byte count")
        val = Int(64, 0, 0)
        for b in out[1:]:
            val = e.binop("BitOr", e.binop("Shl", val, Int(32, 0, 8)), e.cast("IntToInt", b, "u64"))
        e.prove(e.binop("Eq", val, v), "fmt:varint", "payload is not the big-endian value")
        if n > 0:
            e.prove(e.binop("Ne", out[1], Int(8, 0, 0)), "fmt:varint", "byte count is not minimal (leading zero byte)")
        e.prove(e.binop("Eq", r.f[0], Int(64, 0, n + 1)), "fmt:varint", "returned length differs from bytes written")
        cur = Cell(CursorObj(VecObj(list(out) + [Int(8, 0, 0xAA)])))
        rr = e.call_fn(COMMON, "read_varint", [Ref(cur)])
        e.prove(rr.variant == 0, "fmt:varint", "read_varint failed on write_varint output")
        e.prove(e.binop("Eq", rr.f[0].f[0], v), "fmt:varint", "read_varint(write_varint(v)) != v")
        e.prove(e.binop("Eq", rr.f[0].f[1], Int(64, 0, n + 1)) and cur.v.pos == n + 1, "fmt:varint", "read_varint consumed a wrong number of bytes")
        # fixed u64
        b2 = Cell(VecObj([]))
        e.call_fn(COMMON, "write_fixed_u64", [Ref(b2), v])
        fx = e.vec_items(b2.v)
        e.prove(len(fx) == 8, "fmt:fixed_u64", "fixed u64 is not 8 bytes")
        val = Int(64, 0, 0)
        for i, b in enumerate(fx):
            val = e.binop("BitOr", val, e.binop("Shl", e.cast("IntToInt", b, "u64"), Int(32, 0, 8 * i)))
        e.prove(e.binop("Eq", val, v), "fmt:fixed_u64", "fixed u64 is not little-endian")
        return None

    def native(self, inp):
        return "varint", {"v": str(inp["v"])}

    def concrete_cases(self, rnd):
        return [{"v": x} for x in [0, 1, 255, 256, 65535, 65536, (1 << 32) - 1, 1 << 32, (1 << 56) - 1, 1 << 56, (1 << 64) - 1, rnd.randrange(1 << 64)]]

    def compare(self, s, n):
        return s["bytes"] == n.get("bytes")


class CollVarint(Instance):
    crates = ("ragc-common",)
    required_witnesses = ("b1", "b2", "b3", "b4", "b5")
    bounds = {"value": "every u32", "functions": "CollectionVarInt::encode / decode"}

    def path(self, e):
        v = e.sym_int("v", 32)
        buf = Cell(VecObj([]))
        e.call_fn(COMMON, "CollectionVarInt::encode", [Ref(buf), v])
        out = e.vec_items(buf.v)
        if e.concrete is not None:
            return {"bytes": [x.v for x in out]}
        nb = len(out)
        e.witness(f"b{nb}")
        # format rule (AGC collection_v3): prefix 0 / 10 / 110 / 1110 / 11110000, biased ranges
        T1 = 1 << 7; T2 = T1 + (1 << 14); T3 = T2 + (1 << 21); T4 = T3 + (1 << 28)
        lo, hi, pref, bias = {1: (0, T1, 0x00, 0), 2: (T1, T2, 0x80, T1), 3: (T2, T3, 0xC0, T2), 4: (T3, T4, 0xE0, T3), 5: (T4, 1 << 32, 0xF0, T4)}[nb]
        e.prove(b_and(e.binop("Ge", v, Int(32, 0, lo)), True if hi == 1 << 32 else e.binop("Lt", v, Int(32, 0, hi))), "fmt:collvarint",
                f"{nb}-byte code used outside the value range [{lo},{hi})")
        x = e.binop("Sub", v, Int(32, 0, bias))
        if nb < 5:
            exp = []
            for i in range(nb):
                sh = 8 * (nb - 1 - i)
                by = e.cast("IntToInt", e.binop("BitAnd", e.binop("Shr", x, Int(32, 0, sh)), Int(32, 0, 0xFF)), "u8")
                exp.append(e.binop("BitOr", by, Int(8, 0, pref)) if i == 0 else by)
        else:
            exp = [Int(8, 0, 0xF0)] + [e.cast("IntToInt", e.binop("BitAnd", e.binop("Shr", x, Int(32, 0, 8 * (3 - i))), Int(32, 0, 0xFF)), "u8") for i in range(4)]
        e.prove(e.eq_bytes(out, exp), "fmt:collvarint", f"{nb}-byte code does not follow the prefix/bias layout")
        # decode consumes exactly the code and returns the value
        data = Cell(VecObj(list(out) + [Int(8, 0, 0x55)]))
        ptr = Cell(Slice(data, (), 0, nb + 1))
        r = e.call_fn(COMMON, "CollectionVarInt::decode", [Ref(ptr)])
        e.prove(r.variant == 0, "fmt:collvarint", "decode failed on encode output")
        e.prove(e.binop("Eq", r.f[0], v), "fmt:collvarint", "decode(encode(v)) != v")
        rest = ptr.v
        e.prove(rest.hi - rest.lo == 1, "fmt:collvarint", "decode consumed a wrong number of bytes")
        return None

    def native(self, inp):
        return "collvarint", {"v": inp["v"]}

    def concrete_cases(self, rnd):
        T1 = 1 << 7; T2 = T1 + (1 << 14); T3 = T2 + (1 << 21); T4 = T3 + (1 << 28)
        return [{"v": x} for x in [0, T1 - 1, T1, T2 - 1, T2, T3 - 1, T3, T4 - 1, T4, (1 << 32) - 1, rnd.randrange(1 << 32)]]

    def compare(self, s, n):
        return s["bytes"] == n.get("bytes")


class StreamNames(Instance):
    crates = ("ragc-common",)
    required_witnesses = ("d1", "d2", "d3")

    def __init__(self, name, bits):
        Instance.__init__(self, name)
        self.bits = bits
        self.bounds = {"id": f"every n < 2^{bits}", "functions": "int_to_base64, stream_ref_name, stream_delta_name (archive version 3000)"}
        if bits > 18:
            self.required_witnesses = ("d1", "d2", "d3", "d4")

    def path(self, e):
        n = e.sym_int("n", 32, hi=(1 << self.bits) - 1)
        s = e.call_fn(COMMON, "int_to_base64", [n])
        out = e.vec_items(s)
        if e.concrete is not None:
            r = e.call_fn(COMMON, "stream_ref_name", [Int(32, 0, 3000), n]); d = e.call_fn(COMMON, "stream_delta_name", [Int(32, 0, 3000), n])
            return {"b64": [x.v for x in out], "ref": [x.v for x in e.vec_items(r)], "delta": [x.v for x in e.vec_items(d)]}
        k = len(out)
        e.witness(f"d{k}")
        # little-endian base-64 digits over the C++ alphabet, no leading (most-significant) zero digit except for n == 0
        val = Int(32, 0, 0)
        for i, ch in enumerate(out):
            digit = Int(32, 0, 0)
            isd = False
            for dv, c in enumerate(B64):
                hit = e.binop("Eq", ch, Int(8, 0, c))
                digit = ite_int(hit, Int(32, 0, dv), digit); isd = b_or(isd, hit)
            e.prove(isd, "fmt:base64", f"character {i} is not in the base-64 alphabet")
            val = e.binop("Add", val, e.binop("Shl", digit, Int(32, 0, 6 * i)))
        e.prove(e.binop("Eq", val, n), "fmt:base64", "digits do not spell n in little-endian base 64")
        if k > 1:
            e.prove(e.binop("Ne", out[-1], Int(8, 0, B64[0])), "fmt:base64", "most significant digit is zero")
        r = e.call_fn(COMMON, "stream_ref_name", [Int(32, 0, 3000), n]); d = e.call_fn(COMMON, "stream_delta_name", [Int(32, 0, 3000), n])
        rb, db = e.vec_items(r), e.vec_items(d)
        e.prove(e.eq_bytes(rb, [Int(8, 0, ord("x"))] + out + [Int(8, 0, ord("r"))]), "fmt:stream_name", "reference stream name is not x<base64>r")
        e.prove(e.eq_bytes(db, [Int(8, 0, ord("x"))] + out + [Int(8, 0, ord("d"))]), "fmt:stream_name", "delta stream name is not x<base64>d")
        return None

    def native(self, inp):
        return "stream_names", {"n": inp["n"]}

    def concrete_cases(self, rnd):
        return [{"n": x} for x in [0, 1, 63, 64, 65, 4095, 4096, (1 << self.bits) - 1, rnd.randrange(1 << self.bits)]]

    def compare(self, s, n):
        return s["b64"] == n.get("b64") and s["ref"] == n.get("ref") and s["delta"] == n.get("delta")


INSTANCES = {}


def _reg(i):
    INSTANCES[i.name] = i
    return i


_reg(Varint("varint")); _reg(CollVarint("collvarint")); _reg(StreamNames("names18", 18)); _reg(StreamNames("names24", 24))
QUICK = ["varint", "collvarint", "names18"]
THOROUGH = ["varint", "collvarint", "names24"]


def run(ctx):
    insts = [INSTANCES[n] for n in (QUICK if ctx["tier"] == "quick" else THOROUGH)]
    return run_instances("C02", "harness.C02", insts, ctx,
                         assumptions=["the format rules are those of AGC v3 as restated in the harness (prefix varints, length-prefixed big-endian integers, base-64 alphabet 0-9A-Za-z_#)",
                                      "whole-archive decoding by a third-party reader, pack addressing inside the worker pipeline and ZSTD payloads are outside this check (footer/part framing: C13 role archive:format)"])


# ---------------------------------------------------------------------------------------------------------------
# (d) pack addressing: one inductive step of the real flush_pack_compress_only from an arbitrary valid buffer state
CORE = "ragc-core"
SEP = 0xFF
PLACEHOLDER = 0x7F
PACK = 50


class PackStep(Instance):
    crates = ("ragc-core", "ragc-common")

    def __init__(self, name, raw_group):
        Instance.__init__(self, name)
        self.raw = raw_group
        self.required_witnesses = ("pack_emitted", "stored_raw", "stored_compressed", "dedup_in_open_pack")
        self.bounds = {"group": "raw group (id 3)" if raw_group else "LZ group (id 20, reference already written)",
                       "pre-state": "P in {0,1} full packs already written, pending deltas one short of a full pack (invariant: pending ids consecutive, id i at entry (i-1) mod 50 / i mod 50)",
                       "new segments": "1..3 with symbolic 2-byte data (the first fills the pack, the others open the next pack; equal contents exercise the per-pack de-duplication)", "post-state": "the buffer invariant is re-established (inductive step)", "zstd": "lossless stub: token / n+1 / compress_bound(n) frame lengths"}

    def path(self, e):
        raw = self.raw
        gid = 3 if raw else 20
        P = e.choose(2, "P")
        first_raw_pack = raw and P == 0
        cap = PACK - 1 if first_raw_pack else PACK          # entries of unique deltas in the pack being filled
        npend = cap - 1
        first_id = P * PACK + (0 if raw else 1) + (1 if first_raw_pack else 0)
        if raw and P == 1:
            first_id = PACK
        S = lambda b: VecObj([Int(8, 0, x) for x in b], "String")
        pend = [VecObj([Int(8, 0, 100 + (j % 100)), Int(8, 0, j // 100 + 7)]) for j in range(npend)]
        pend_ids = [Int(32, 0, first_id + j) for j in range(npend)]
        nnew = 1 + e.choose(3, "nnew1")
        segs, datas = [], []
        for j in range(nnew):
            d = e.sym_bytes(f"seg{j}", 2, among=[0, 1, 2, 3])
            datas.append(d)
            segs.append(e.struct("agc_compressor.rs:BufferedSegment", sample_name=S(b"s"), contig_name=S(b"c"), seg_part_no=Int(64, 0, 5 + j), data=VecObj(list(d)),
                                 is_rev_comp=False, sample_priority=Int(32, 1, 0)))
        lz_opt, ref_opt = none(), none()
        if not raw:
            ref = [Int(8, 0, x) for x in (0, 1, 2, 3, 3, 2, 1, 0, 0, 2)]
            lz = e.call_fn(CORE, "LZDiff::new", [Int(32, 0, 20)]); lzc = Cell(lz)
            e.call_fn(CORE, "LZDiff::prepare", [Ref(lzc), Ref(Cell(VecObj(list(ref))))])
            lz_opt = some(lzc.v)
            ref_opt = some(e.struct("agc_compressor.rs:BufferedSegment", sample_name=S(b"r"), contig_name=S(b"c"), seg_part_no=Int(64, 0, 0), data=VecObj(list(ref)),
                                    is_rev_comp=False, sample_priority=Int(32, 1, 0)))
        buf = e.struct("agc_compressor.rs:SegmentGroupBuffer", group_id=Int(32, 0, gid), stream_id=Int(64, 0, 7), ref_stream_id=Int(64, 0, 8), reference_segment=ref_opt,
                       segments=VecObj(segs), ref_written=not raw, segments_written=Int(32, 0, first_id + npend), lz_diff=lz_opt, pending_deltas=VecObj(pend),
                       pending_delta_ids=VecObj(pend_ids), raw_placeholder_written=bool(raw and P == 1))
        cfgn = e.p.structs["agc_compressor.rs:StreamingQueueConfig"]
        cfgv = {n: Opaque("cfg:" + n) for n in cfgn}
        cfgv.update(min_match_len=Int(64, 0, 20), compression_level=Int(32, 1, 17), verbosity=Int(64, 0, 0))
        cfg = e.struct("agc_compressor.rs:StreamingQueueConfig", **cfgv)
        bc = Cell(buf)
        r = e.call_fn(CORE, "flush_pack_compress_only", [Ref(bc), Ref(Cell(cfg))])
        e.prove(r.variant == 0, "fmt:pack", "flush_pack_compress_only returned Err")
        res = r.f[0]
        writes = e.field(res, "FlushPackResult", "archive_writes").e
        regs = e.field(res, "FlushPackResult", "registrations").e
        # the new segments get consecutive ids unless an identical delta is already pending (dedup) or equals the reference (id 0)
        e.prove(len(regs) == nnew, "fmt:pack_registration", f"{len(regs)} registrations for {nnew} segments")
        for j, rg in enumerate(regs):
            e.prove(e.binop("Eq", e.field(rg, "SegmentRegistration", "raw_length"), Int(32, 0, 2)), "fmt:pack_registration", "registered raw_length differs from the segment length")
            e.prove(e.binop("Eq", e.field(rg, "SegmentRegistration", "group_id"), Int(32, 0, gid)), "fmt:pack_registration", "registered group id differs")
        e.prove(len(writes) == 1, "fmt:pack", f"{len(writes)} parts emitted when the pending pack became full (expected 1)")
        e.witness("pack_emitted")
        w = writes[0]
        data = e.vec_items(e.field(w, "PreCompressedPart", "data")); meta = e.field(w, "PreCompressedPart", "metadata")
        e.prove(e.binop("Eq", e.field(w, "PreCompressedPart", "stream_id"), Int(64, 0, 7)), "fmt:pack", "pack written to the wrong stream")
        # expected unpacked bytes per the format: [placeholder FF] entries each followed by FF, PACK entries in a full pack
        first_delta_text = None
        id0 = e.field(regs[0], "SegmentRegistration", "in_group_id")
        e.prove(e.binop("Eq", id0, Int(32, 0, first_id + npend)), "fmt:pack_addressing", f"the first new segment did not get in-group id {first_id + npend}")
        # reader's view of the part
        if meta.conc() and meta.v == 0:
            e.witness("stored_raw"); unpacked = data
        else:
            e.witness("stored_compressed")
            marker = data[-1]
            dec = e.call_fn(CORE, "decompress_segment_with_marker", [e.slice_of(data[:-1]), marker])
            e.prove(dec.variant == 0, "fmt:pack", "the reader cannot decompress the emitted pack")
            unpacked = e.vec_items(dec.f[0])
            e.prove(e.binop("Eq", meta, Int(64, 0, len(unpacked))), "fmt:pack_metadata", f"part metadata differs from the unpacked size {len(unpacked)} (0 is reserved for stored-raw parts)")
            e.prove(marker.conc() and marker.v == 0, "fmt:pack", "delta packs carry marker 0")
        nsep = 0
        for x in unpacked:
            if x.conc() and x.v == SEP:
                nsep += 1
        e.prove(nsep == PACK, "fmt:pack_addressing", f"a full pack must hold {PACK} 0xFF-terminated entries, this one has {nsep}")
        if first_raw_pack:
            e.prove(len(unpacked) >= 2 and unpacked[0].conc() and unpacked[0].v == PLACEHOLDER and unpacked[1].v == SEP, "fmt:pack_placeholder", "pack 0 of a raw group must start with the 0x7f placeholder entry")
        # every id of this pack is found by the reader's addressing rule
        ids = [first_id + j for j in range(npend)] + [first_id + npend]
        texts = [p_.e for p_ in pend] + [None]
        for i, txt in zip(ids, texts):
            pos = (i % PACK) if raw else ((i - 1) % PACK)
            pk = (i // PACK) if raw else ((i - 1) // PACK)
            e.prove(pk == P, "fmt:pack_addressing", f"id {i} belongs to pack {pk}, but it was written into pack {P}")
            got = e.call_fn(CORE, "Decompressor::unpack_contig", [e.slice_of(unpacked), Int(64, 0, pos)])
            e.prove(got.variant == 0, "fmt:pack_addressing", f"reader cannot find entry {pos}")
            gb = e.vec_items(got.f[0])
            if txt is not None:
                e.prove(e.eq_bytes(gb, txt), "fmt:pack_addressing", f"entry {pos} of pack {P} is not the delta with id {i}")
            elif raw:
                e.prove(e.eq_bytes(gb, datas_sorted_first(e, segs, datas)), "fmt:pack_addressing", f"entry {pos} of pack {P} is not the new segment with id {i}")
        # segments after the pack boundary go to the next (open) pack: fresh consecutive ids, re-used only for identical content
        F0 = first_id + npend
        ids = [e.field(rg, "SegmentRegistration", "in_group_id") for rg in regs]
        for j in range(1, nnew):
            e.prove(ids[j].conc(), "fmt:pack_registration", "symbolic in-group id")
            same0 = e.branch(e.eq_bytes(datas[j], datas[0]))
            lo_ok = ids[j].v >= F0 + 1 or (same0 and ids[j].v == F0)
            e.prove(lo_ok and ids[j].v <= F0 + j, "fmt:pack_dedup", f"segment {j} after the pack boundary got in-group id {ids[j].v}: not an entry of the open pack (ids {F0 + 1}..{F0 + j})")
            for l in range(1, j):
                eq = e.branch(e.eq_bytes(datas[j], datas[l]))
                if ids[j].v == ids[l].v:
                    e.prove(eq, "fmt:pack_dedup", f"segments {l} and {j} share in-group id {ids[j].v} although their contents differ")
                    e.witness("dedup_in_open_pack")
        # inductive step: the post-state satisfies the buffer invariant again
        post = bc.v
        SG = "agc_compressor.rs:SegmentGroupBuffer"
        pd = e.field(post, SG, "pending_deltas").e; pi = e.field(post, SG, "pending_delta_ids").e
        e.prove(len(pd) == len(pi), "fmt:pack_invariant", f"after the call {len(pd)} pending deltas but {len(pi)} pending ids")
        e.prove(len(pd) < PACK, "fmt:pack_invariant", "a full pack is left pending")
        for i_, x in enumerate(pi):
            e.prove(x.conc() and x.v == F0 + 1 + i_, "fmt:pack_invariant", f"pending id #{i_} is {x.v if x.conc() else '?'}, the open pack starts at id {F0 + 1}")
        sw = e.field(post, SG, "segments_written")
        e.prove(sw.conc() and sw.v == F0 + 1 + len(pd), "fmt:pack_invariant", f"segments_written={sw.v if sw.conc() else '?'} after ids up to {F0 + len(pd)} were handed out")
        e.prove(len(e.field(post, SG, "segments").e) == 0, "fmt:pack_invariant", "segments not consumed")
        if raw:
            e.prove(e.field(post, SG, "raw_placeholder_written") is True, "fmt:pack_invariant", "raw_placeholder_written not set after pack 0 was written")
        # every id registered in the open pack addresses the pending entry holding that segment's delta
        for j in range(1, nnew):
            if ids[j].v >= F0 + 1:
                ent = e.vec_items(pd[ids[j].v - F0 - 1])
                if raw:
                    e.prove(e.eq_bytes(ent, datas[j]), "fmt:pack_dedup", f"pending entry for id {ids[j].v} is not segment {j}'s data")
                else:
                    dec = e.call_fn(CORE, "LZDiff::decode", [Ref(Cell(lz_opt.f[0])), e.slice_of(ent)])
                    e.prove(e.eq_bytes(e.vec_items(dec), datas[j]), "fmt:pack_dedup", f"pending delta for id {ids[j].v} does not decode to segment {j}'s data")
        return None

    def classify_panic(self, e, ex):
        return f"fmt:panic:{ex.where.split('::')[-1]}:{ex.kind}", str(ex)

    def native(self, inp):
        n = 1 + inp.get("nnew1", 0)
        return "pack_step", {"raw": self.raw, "P": inp.get("P", 0), "segs": [inp.get(f"seg{j}", [0, 1]) for j in range(n)]}

    def confirm(self, viol, outs):
        if Instance.confirm(self, viol, outs):
            return True
        # registration ids, judged on the native output by the same rule (ids of the open pack: fresh, consecutive, shared only by equal contents)
        cmd, case = self.native(viol["inputs"])
        raw, P, segs = case["raw"], case["P"], case["segs"]
        F0 = (1 if (raw and P == 0) else (PACK if raw else P * PACK + 1)) + ((PACK - 1 if (raw and P == 0) else PACK) - 1)
        for o in outs.values():
            regs = o.get("registrations") or []
            if len(regs) != len(segs):
                return True
            ids = [r[1] for r in regs]
            if ids[0] != F0:
                return True
            for j in range(1, len(ids)):
                if not ((F0 + 1 <= ids[j] <= F0 + j) or (ids[j] == F0 and segs[j] == segs[0])):
                    return True
                for l in range(1, j):
                    if ids[j] == ids[l] and segs[j] != segs[l]:
                        return True
            # representation invariant of the real buffer after the step (read through the flush_pack_step_state hook)
            st = o.get("state") or {}
            pi = st.get("pending_ids", [])
            if len(pi) != st.get("pending") or pi != list(range(F0 + 1, F0 + 1 + len(pi))) or st.get("segments_written") != F0 + 1 + len(pi) \
               or st.get("segments_left") != 0 or (raw and not st.get("placeholder")):
                return True
        return False


def datas_sorted_first(e, segs, datas):
    """segments are processed in sorted order (sample, contig, part): part numbers ascend with j, so the first is datas[0]"""
    return datas[0]


_reg(PackStep("pack_raw", True)); _reg(PackStep("pack_lz", False))
QUICK += ["pack_raw", "pack_lz"]; THOROUGH += ["pack_raw", "pack_lz"]


# ---------------------------------------------------------------------------------------------------------------
# (f) collection-details parts are self-contained: the in-group-id predictor starts empty in EVERY metadata batch.
#     Independent statement of the v3 descriptor coding; the real serialiser's second batch is decoded by that rule.
class DetailsFormat(Instance):
    crates = ("ragc-common",)
    required_witnesses = ("second_batch", "same_group_across_batches")

    def __init__(self, name, nseg):
        Instance.__init__(self, name)
        self.nseg = nseg
        self.bounds = {"collection": "2 samples, one per metadata batch; batch 0: 1 contig with 2 segments in group 16; batch 1: 1 contig with 1.." + str(nseg) + " segments",
                       "batch 1 descriptors": "group in {16,17} symbolic, in_group_id symbolic <= 300, orientation symbolic, raw_length symbolic u16",
                       "oracle": "format rule restated here: per batch an empty predictor table; code = id (no prediction) | 0 | 1 (= prediction+1) | zigzag(id, prediction+1)+1; length = zigzag(len, segment_size+k)"}

    def path(self, e):
        from harness.C03 import mk_collection
        from mirsym.models import ite_int
        ns = 1 + e.choose(self.nseg, "ns1")
        b0 = [e.struct("SegmentDesc", group_id=Int(32, 0, 16), in_group_id=e.sym_int("a0", 32, hi=300), is_rev_comp=False, raw_length=Int(32, 0, 1021)),
              e.struct("SegmentDesc", group_id=Int(32, 0, 17), in_group_id=e.sym_int("a1", 32, hi=300), is_rev_comp=False, raw_length=Int(32, 0, 1021))]
        segs = []
        for i in range(ns):
            segs.append((e.sym_int(f"g{i}", 32, among=[16, 17]), e.sym_int(f"i{i}", 32, hi=300), e.sym_bool(f"r{i}"), e.sym_int(f"l{i}", 32, hi=65535)))
        b1 = [e.struct("SegmentDesc", group_id=g, in_group_id=i_, is_rev_comp=r, raw_length=l) for g, i_, r, l in segs]
        c8 = lambda s_: [Int(8, 0, b) for b in s_]
        src = mk_collection(e, [(c8(b"s0"), [(c8(b"c"), b0)]), (c8(b"s1"), [(c8(b"c"), b1)])], 1000, 21)
        e.call_fn(COMMON, "CollectionV3::serialize_contig_details", [Ref(src), Int(64, 0, 0), Int(64, 0, 1)])
        v5 = e.call_fn(COMMON, "CollectionV3::serialize_contig_details", [Ref(src), Int(64, 0, 1), Int(64, 0, 2)])
        e.witness("second_batch")
        streams = [e.vec_items(x) for x in v5.f]

        def decode_all(items, what):
            ptr = Cell(Slice(Cell(VecObj(list(items))), (), 0, len(items)))
            out = []
            while ptr.v.hi - ptr.v.lo > 0:
                r = e.call_fn(COMMON, "CollectionVarInt::decode", [Ref(ptr)])
                e.prove(r.variant == 0, "fmt:details", f"stream {what} of the second batch is not a sequence of prefix varints")
                out.append(r.f[0])
            return out
        counts = decode_all(streams[0], "counts")
        e.prove(len(counts) == 3 and all(x.conc() for x in counts) and [x.v for x in counts] == [1, 1, ns], "fmt:details", "counts stream of batch 1 is not [1 sample, 1 contig, n segments]")
        G, I, L, R = (decode_all(streams[k], nm) for k, nm in ((1, "group ids"), (2, "in-group ids"), (3, "lengths"), (4, "orientation")))
        e.prove(len(G) == ns and len(I) == ns and len(L) == ns and len(R) == ns, "fmt:details", "descriptor streams of batch 1 do not hold one value per segment")
        # format rule with a predictor table that is EMPTY at the start of this batch
        pred = {16: Int(32, 1, -1 & 0xFFFFFFFF), 17: Int(32, 1, -1 & 0xFFFFFFFF)}
        zz = lambda x, p: ite_int(e.binop("Lt", x, p), e.binop("Sub", e.binop("Mul", Int(32, 0, 2), e.binop("Sub", p, x)), Int(32, 0, 1)),
                                  ite_int(e.binop("Lt", x, e.binop("Mul", Int(32, 0, 2), p)), e.binop("Mul", Int(32, 0, 2), e.binop("Sub", x, p)), x))
        for j, (g, i_, r, l) in enumerate(segs):
            e.prove(e.binop("Eq", G[j], g), "fmt:details", f"segment {j}: group id is not stored verbatim")
            e.prove(e.binop("Eq", R[j], ite_int(r, Int(32, 0, 1), Int(32, 0, 0)) if not isinstance(r, bool) else Int(32, 0, int(r))), "fmt:details", f"segment {j}: orientation flag")
            e.prove(e.binop("Eq", L[j], zz(l, Int(32, 0, 1021))), "fmt:details", f"segment {j}: raw length is not zigzag(len, segment_size + k)")
            gv = 16 if e.branch(e.binop("Eq", g, Int(32, 0, 16))) else 17
            if gv == 16 or gv == 17:
                e.witness("same_group_across_batches")
            prev = pred[gv]                       # Python-level table: prev is -1 (None) or a symbolic id
            if prev is None or (isinstance(prev, Int) and prev.conc() and prev.s and prev.sval() == -1):
                exp = i_
            else:
                p1 = e.binop("Add", prev, Int(32, 0, 1))
                exp = ite_int(e.binop("Eq", i_, Int(32, 0, 0)), Int(32, 0, 0), ite_int(e.binop("Eq", i_, p1), Int(32, 0, 1), e.binop("Add", zz(i_, p1), Int(32, 0, 1))))
            e.prove(e.binop("Eq", I[j], exp), "fmt:details_predictor", f"segment {j} of the second batch: in-group-id code does not follow the per-batch predictor rule (a batch part must decode on its own)")
            # update rule: raise the predictor only when the id grows and is > 0
            if prev is None or (isinstance(prev, Int) and prev.conc() and prev.s and prev.sval() == -1):
                if e.branch(e.binop("Gt", i_, Int(32, 0, 0))):
                    pred[gv] = i_
            else:
                if e.branch(b_and(e.binop("Gt", i_, prev), e.binop("Gt", i_, Int(32, 0, 0)))):
                    pred[gv] = i_
        return None

    def classify_panic(self, e, ex):
        return f"fmt:panic:{ex.where.split('::')[-1]}:{ex.kind}", str(ex)

    def native(self, inp):
        ns = 1 + inp.get("ns1", 0)
        return "details_batches", {"b0": [[16, inp.get("a0", 0), False, 1021], [17, inp.get("a1", 0), False, 1021]],
                                   "b1": [[inp.get(f"g{i}", 16), inp.get(f"i{i}", 0), bool(inp.get(f"r{i}", False)), inp.get(f"l{i}", 0)] for i in range(ns)]}

    def confirm(self, viol, outs):
        # the native build serialises the same two batches; the second part is decoded here by the restated rule
        def zz(x, p):
            return 2 * (p - x) - 1 if x < p else (2 * (x - p) if x < 2 * p else x)
        cmd, case = self.native(viol["inputs"])
        for o in outs.values():
            if "panic" in o or "crash" in o:
                return True
            st = o.get("batch1")
            if st is None:
                return False
            pred = {}
            expI, expL = [], []
            for g, i_, r, l in case["b1"]:
                prev = pred.get(g, -1)
                expI.append(i_ if prev == -1 else (0 if i_ == 0 else (1 if i_ == prev + 1 else zz(i_, prev + 1) + 1)))
                expL.append(zz(l, 1021))
                if i_ > prev and i_ > 0:
                    pred[g] = i_
            if st.get("in_group") != expI or st.get("len") != expL or st.get("group") != [x[0] for x in case["b1"]]:
                return True
        return False


_reg(DetailsFormat("details_batch2", 1)); _reg(DetailsFormat("T_details_batch2", 2))
QUICK += ["details_batch2"]; THOROUGH += ["T_details_batch2"]


# ---------------------------------------------------------------------------------------------------------------
# (g) whole archives: the real pipeline writes an archive (harness/pipe.py) and a reader built ONLY from the format rules
#     (harness/agcread.py; natively replay/src/indep.rs) must recover every sample: directory, params, collection streams, stream
#     names, packs, raw-group placeholder, reference marker / tuple packing, metadata convention, LZ-diff V2 text.
from harness.pipe import Pipeline, SPL as _SPL, TWO as _TWO, THREE as _THREE
from harness.pipe import RICH as _RICH


def _fmt(name, threads, samples, **kw):
    i = Pipeline(name, threads, samples, splitters=_SPL, view="format", **kw)
    i.required_witnesses = ("finalized", "independent_decoder_agrees")
    return _reg(i)


QUICK += [_fmt("arc_rich_api_t1", 1, _RICH, preempt=0, cross=True).name, _fmt("arc_rich_multi_t2_store", 2, _RICH, preempt=0, driver="multi", zstd="store").name,
          _fmt("arc_edit_subst_t1", 1, _TWO, preempt=0, edits=[("subst", 1, 0)]).name,
          _fmt("arc_packsize3_t1", 1, _THREE, preempt=0, pack_size=Int(64, 0, 3)).name]           # -l 3: the params stream must still describe the physical packs of 50
THOROUGH += ["arc_rich_api_t1", "arc_rich_multi_t2_store", "arc_edit_subst_t1", _fmt("T_arc_edit_indel_rc_t1", 1, _TWO, preempt=0, edits=[("rc", 1, 0), ("del", 1, 0), ("ins", 1, 0)]).name,
             _fmt("T_arc_single_t2", 2, _THREE, preempt=0, driver="single", pack_size=Int(64, 0, 2)).name]
