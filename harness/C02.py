"""C02 — AGC v3 format conformance, kernel level. E2 (mirsym) over the real codec MIR against an independent
statement of the format rules (constants spelled out here, never imported from the repository):
 (a) length-prefixed big-endian integers (write_varint/read_varint), fixed 8-byte LE,
 (b) collection prefix varints (CollectionVarInt),
 (c) stream names x<base64 id>r / x<base64 id>d over the C++ alphabet,
 (e) the archive footer/part framing is checked byte-for-byte inside the C13 harness (role archive:format)."""
import z3
from mirsym.values import *
from mirsym.values import b_and, b_or, b_not
from mirsym.models import ite_int
from harness.base import Instance, run_instances

COMMON = "ragc-common"
B64 = b"0123456789ABCDEFGHIJKLMNOPQRSTUVWXYZabcdefghijklmnopqrstuvwxyz_#"


class Varint(Instance):
    crates = ("ragc-common",)
    required_witnesses = tuple(f"len{i}" for i in range(0, 9))
    bounds = {"value": "every u64", "functions": "write_varint, read_varint, write_fixed_u64, read_fixed_u64"}

    def path(self, e):
        from mirsym.models_io import CursorObj
        v = e.sym_int("v", 64)
        buf = Cell(VecObj([]))
        r = e.call_fn(COMMON, "write_varint", [Ref(buf), v])
        e.prove(r.variant == 0, "fmt:varint", "write_varint into a Vec returned Err")
        out = e.vec_items(buf.v)
        n = len(out) - 1
        if e.concrete is not None:
            return {"bytes": [x.v for x in out]}
        e.witness(f"len{n}")
        # format rule: [n][n bytes big-endian], n minimal
        e.prove(e.binop("Eq", out[0], Int(8, 0, n)), "fmt:varint", "first byte is not the byte count")
        val = Int(64, 0, 0)
        for b in out[1:]:
            val = e.binop("BitOr", e.binop("Shl", val, Int(32, 0, 8)), e.cast("IntToInt", b, "u64"))
        e.prove(e.binop("Eq", val, v), "fmt:varint", "payload is not the big-endian value")
        if n > 0:
            e.prove(e.binop("Ne", out[1], Int(8, 0, 0)), "fmt:varint", "byte count is not minimal (leading zero byte)")
        e.prove(e.binop("Eq", r.f[0], Int(64, 0, n + 1)), "fmt:varint", "returned length differs from bytes written")
        cur = Cell(CursorObj(VecObj(list(out) + [Int(8, 0, 0xAA)])))
        rr = e.call_fn(COMMON, "read_varint", [Ref(cur)])
        e.prove(rr.variant == 0, "fmt:varint", "read_varint failed on write_varint output")
        e.prove(e.binop("Eq", rr.f[0].f[0], v), "fmt:varint", "read_varint(write_varint(v)) != v")
        e.prove(e.binop("Eq", rr.f[0].f[1], Int(64, 0, n + 1)) and cur.v.pos == n + 1, "fmt:varint", "read_varint consumed a wrong number of bytes")
        # fixed u64
        b2 = Cell(VecObj([]))
        e.call_fn(COMMON, "write_fixed_u64", [Ref(b2), v])
        fx = e.vec_items(b2.v)
        e.prove(len(fx) == 8, "fmt:fixed_u64", "fixed u64 is not 8 bytes")
        val = Int(64, 0, 0)
        for i, b in enumerate(fx):
            val = e.binop("BitOr", val, e.binop("Shl", e.cast("IntToInt", b, "u64"), Int(32, 0, 8 * i)))
        e.prove(e.binop("Eq", val, v), "fmt:fixed_u64", "fixed u64 is not little-endian")
        return None

    def native(self, inp):
        return "varint", {"v": str(inp["v"])}

    def concrete_cases(self, rnd):
        return [{"v": x} for x in [0, 1, 255, 256, 65535, 65536, (1 << 32) - 1, 1 << 32, (1 << 56) - 1, 1 << 56, (1 << 64) - 1, rnd.randrange(1 << 64)]]

    def compare(self, s, n):
        return s["bytes"] == n.get("bytes")


class CollVarint(Instance):
    crates = ("ragc-common",)
    required_witnesses = ("b1", "b2", "b3", "b4", "b5")
    bounds = {"value": "every u32", "functions": "CollectionVarInt::encode / decode"}

    def path(self, e):
        v = e.sym_int("v", 32)
        buf = Cell(VecObj([]))
        e.call_fn(COMMON, "CollectionVarInt::encode", [Ref(buf), v])
        out = e.vec_items(buf.v)
        if e.concrete is not None:
            return {"bytes": [x.v for x in out]}
        nb = len(out)
        e.witness(f"b{nb}")
        # format rule (AGC collection_v3): prefix 0 / 10 / 110 / 1110 / 11110000, biased ranges
        T1 = 1 << 7; T2 = T1 + (1 << 14); T3 = T2 + (1 << 21); T4 = T3 + (1 << 28)
        lo, hi, pref, bias = {1: (0, T1, 0x00, 0), 2: (T1, T2, 0x80, T1), 3: (T2, T3, 0xC0, T2), 4: (T3, T4, 0xE0, T3), 5: (T4, 1 << 32, 0xF0, T4)}[nb]
        e.prove(b_and(e.binop("Ge", v, Int(32, 0, lo)), True if hi == 1 << 32 else e.binop("Lt", v, Int(32, 0, hi))), "fmt:collvarint",
                f"{nb}-byte code used outside the value range [{lo},{hi})")
        x = e.binop("Sub", v, Int(32, 0, bias))
        if nb < 5:
            exp = []
            for i in range(nb):
                sh = 8 * (nb - 1 - i)
                by = e.cast("IntToInt", e.binop("BitAnd", e.binop("Shr", x, Int(32, 0, sh)), Int(32, 0, 0xFF)), "u8")
                exp.append(e.binop("BitOr", by, Int(8, 0, pref)) if i == 0 else by)
        else:
            exp = [Int(8, 0, 0xF0)] + [e.cast("IntToInt", e.binop("BitAnd", e.binop("Shr", x, Int(32, 0, 8 * (3 - i))), Int(32, 0, 0xFF)), "u8") for i in range(4)]
        e.prove(e.eq_bytes(out, exp), "fmt:collvarint", f"{nb}-byte code does not follow the prefix/bias layout")
        # decode consumes exactly the code and returns the value
        data = Cell(VecObj(list(out) + [Int(8, 0, 0x55)]))
        ptr = Cell(Slice(data, (), 0, nb + 1))
        r = e.call_fn(COMMON, "CollectionVarInt::decode", [Ref(ptr)])
        e.prove(r.variant == 0, "fmt:collvarint", "decode failed on encode output")
        e.prove(e.binop("Eq", r.f[0], v), "fmt:collvarint", "decode(encode(v)) != v")
        rest = ptr.v
        e.prove(rest.hi - rest.lo == 1, "fmt:collvarint", "decode consumed a wrong number of bytes")
        return None

    def native(self, inp):
        return "collvarint", {"v": inp["v"]}

    def concrete_cases(self, rnd):
        T1 = 1 << 7; T2 = T1 + (1 << 14); T3 = T2 + (1 << 21); T4 = T3 + (1 << 28)
        return [{"v": x} for x in [0, T1 - 1, T1, T2 - 1, T2, T3 - 1, T3, T4 - 1, T4, (1 << 32) - 1, rnd.randrange(1 << 32)]]

    def compare(self, s, n):
        return s["bytes"] == n.get("bytes")


class StreamNames(Instance):
    crates = ("ragc-common",)
    required_witnesses = ("d1", "d2", "d3")

    def __init__(self, name, bits):
        Instance.__init__(self, name)
        self.bits = bits
        self.bounds = {"id": f"every n < 2^{bits}", "functions": "int_to_base64, stream_ref_name, stream_delta_name (archive version 3000)"}
        if bits > 18:
            self.required_witnesses = ("d1", "d2", "d3", "d4")

    def path(self, e):
        n = e.sym_int("n", 32, hi=(1 << self.bits) - 1)
        s = e.call_fn(COMMON, "int_to_base64", [n])
        out = e.vec_items(s)
        if e.concrete is not None:
            r = e.call_fn(COMMON, "stream_ref_name", [Int(32, 0, 3000), n]); d = e.call_fn(COMMON, "stream_delta_name", [Int(32, 0, 3000), n])
            return {"b64": [x.v for x in out], "ref": [x.v for x in e.vec_items(r)], "delta": [x.v for x in e.vec_items(d)]}
        k = len(out)
        e.witness(f"d{k}")
        # little-endian base-64 digits over the C++ alphabet, no leading (most-significant) zero digit except for n == 0
        val = Int(32, 0, 0)
        for i, ch in enumerate(out):
            digit = Int(32, 0, 0)
            isd = False
            for dv, c in enumerate(B64):
                hit = e.binop("Eq", ch, Int(8, 0, c))
                digit = ite_int(hit, Int(32, 0, dv), digit); isd = b_or(isd, hit)
            e.prove(isd, "fmt:base64", f"character {i} is not in the base-64 alphabet")
            val = e.binop("Add", val, e.binop("Shl", digit, Int(32, 0, 6 * i)))
        e.prove(e.binop("Eq", val, n), "fmt:base64", "digits do not spell n in little-endian base 64")
        if k > 1:
            e.prove(e.binop("Ne", out[-1], Int(8, 0, B64[0])), "fmt:base64", "most significant digit is zero")
        r = e.call_fn(COMMON, "stream_ref_name", [Int(32, 0, 3000), n]); d = e.call_fn(COMMON, "stream_delta_name", [Int(32, 0, 3000), n])
        rb, db = e.vec_items(r), e.vec_items(d)
        e.prove(e.eq_bytes(rb, [Int(8, 0, ord("x"))] + out + [Int(8, 0, ord("r"))]), "fmt:stream_name", "reference stream name is not x<base64>r")
        e.prove(e.eq_bytes(db, [Int(8, 0, ord("x"))] + out + [Int(8, 0, ord("d"))]), "fmt:stream_name", "delta stream name is not x<base64>d")
        return None

    def native(self, inp):
        return "stream_names", {"n": inp["n"]}

    def concrete_cases(self, rnd):
        return [{"n": x} for x in [0, 1, 63, 64, 65, 4095, 4096, (1 << self.bits) - 1, rnd.randrange(1 << self.bits)]]

    def compare(self, s, n):
        return s["b64"] == n.get("b64") and s["ref"] == n.get("ref") and s["delta"] == n.get("delta")


INSTANCES = {}


def _reg(i):
    INSTANCES[i.name] = i
    return i


_reg(Varint("varint")); _reg(CollVarint("collvarint")); _reg(StreamNames("names18", 18)); _reg(StreamNames("names24", 24))
QUICK = ["varint", "collvarint", "names18"]
THOROUGH = ["varint", "collvarint", "names24"]


def run(ctx):
    insts = [INSTANCES[n] for n in (QUICK if ctx["tier"] == "quick" else THOROUGH)]
    return run_instances("C02", "harness.C02", insts, ctx,
                         assumptions=["the format rules are those of AGC v3 as restated in the harness (prefix varints, length-prefixed big-endian integers, base-64 alphabet 0-9A-Za-z_#)",
                                      "whole-archive decoding by a third-party reader, pack addressing inside the worker pipeline and ZSTD payloads are outside this check (footer/part framing: C13 role archive:format)"])
