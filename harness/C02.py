"""C02 — AGC v3 format conformance, kernel level. E2 (mirsym) over the real codec MIR against an independent
statement of the format rules (constants spelled out here, never imported from the repository):
 (a) length-prefixed big-endian integers (write_varint/read_varint), fixed 8-byte LE,
 (b) collection prefix varints (CollectionVarInt),
 (c) stream names x<base64 id>r / x<base64 id>d over the C++ alphabet,
 (e) the archive footer/part framing is checked byte-for-byte inside the C13 harness (role archive:format)."""
import z3
from mirsym.values import *
from mirsym.values import b_and, b_or, b_not
from mirsym.models import ite_int
from harness.base import Instance, run_instances

COMMON = "ragc-common"
B64 = b"0123456789ABCDEFGHIJKLMNOPQRSTUVWXYZabcdefghijklmnopqrstuvwxyz_#"


class Varint(Instance):
    crates = ("ragc-common",)
    required_witnesses = tuple(f"len{i}" for i in range(0, 9))
    bounds = {"value": "every u64", "functions": "write_varint, read_varint, write_fixed_u64, read_fixed_u64"}

    def path(self, e):
        from mirsym.models_io import CursorObj
        v = e.sym_int("v", 64)
        buf = Cell(VecObj([]))
        r = e.call_fn(COMMON, "write_varint", [Ref(buf), v])
        e.prove(r.variant == 0, "fmt:varint", "write_varint into a Vec returned Err")
        out = e.vec_items(buf.v)
        n = len(out) - 1
        if e.concrete is not None:
            return {"bytes": [x.v for x in out]}
        e.witness(f"len{n}")
        # format rule: [n][n bytes big-endian], n minimal
        e.prove(e.binop("Eq", out[0], Int(8, 0, n)), "fmt:varint", "first byte is not the byte count")
        val = Int(64, 0, 0)
        for b in out[1:]:
            val = e.binop("BitOr", e.binop("Shl", val, Int(32, 0, 8)), e.cast("IntToInt", b, "u64"))
        e.prove(e.binop("Eq", val, v), "fmt:varint", "payload is not the big-endian value")
        if n > 0:
            e.prove(e.binop("Ne", out[1], Int(8, 0, 0)), "fmt:varint", "byte count is not minimal (leading zero byte)")
        e.prove(e.binop("Eq", r.f[0], Int(64, 0, n + 1)), "fmt:varint", "returned length differs from bytes written")
        cur = Cell(CursorObj(VecObj(list(out) + [Int(8, 0, 0xAA)])))
        rr = e.call_fn(COMMON, "read_varint", [Ref(cur)])
        e.prove(rr.variant == 0, "fmt:varint", "read_varint failed on write_varint output")
        e.prove(e.binop("Eq", rr.f[0].f[0], v), "fmt:varint", "read_varint(write_varint(v)) != v")
        e.prove(e.binop("Eq", rr.f[0].f[1], Int(64, 0, n + 1)) and cur.v.pos == n + 1, "fmt:varint", "read_varint consumed a wrong number of bytes")
        # fixed u64
        b2 = Cell(VecObj([]))
        e.call_fn(COMMON, "write_fixed_u64", [Ref(b2), v])
        fx = e.vec_items(b2.v)
        e.prove(len(fx) == 8, "fmt:fixed_u64", "fixed u64 is not 8 bytes")
        val = Int(64, 0, 0)
        for i, b in enumerate(fx):
            val = e.binop("BitOr", val, e.binop("Shl", e.cast("IntToInt", b, "u64"), Int(32, 0, 8 * i)))
        e.prove(e.binop("Eq", val, v), "fmt:fixed_u64", "fixed u64 is not little-endian")
        return None

    def native(self, inp):
        return "varint", {"v": str(inp["v"])}

    def concrete_cases(self, rnd):
        return [{"v": x} for x in [0, 1, 255, 256, 65535, 65536, (1 << 32) - 1, 1 << 32, (1 << 56) - 1, 1 << 56, (1 << 64) - 1, rnd.randrange(1 << 64)]]

    def compare(self, s, n):
        return s["bytes"] == n.get("bytes")


class CollVarint(Instance):
    crates = ("ragc-common",)
    required_witnesses = ("b1", "b2", "b3", "b4", "b5")
    bounds = {"value": "every u32", "functions": "CollectionVarInt::encode / decode"}

    def path(self, e):
        v = e.sym_int("v", 32)
        buf = Cell(VecObj([]))
        e.call_fn(COMMON, "CollectionVarInt::encode", [Ref(buf), v])
        out = e.vec_items(buf.v)
        if e.concrete is not None:
            return {"bytes": [x.v for x in out]}
        nb = len(out)
        e.witness(f"b{nb}")
        # format rule (AGC collection_v3): prefix 0 / 10 / 110 / 1110 / 11110000, biased ranges
        T1 = 1 << 7; T2 = T1 + (1 << 14); T3 = T2 + (1 << 21); T4 = T3 + (1 << 28)
        lo, hi, pref, bias = {1: (0, T1, 0x00, 0), 2: (T1, T2, 0x80, T1), 3: (T2, T3, 0xC0, T2), 4: (T3, T4, 0xE0, T3), 5: (T4, 1 << 32, 0xF0, T4)}[nb]
        e.prove(b_and(e.binop("Ge", v, Int(32, 0, lo)), True if hi == 1 << 32 else e.binop("Lt", v, Int(32, 0, hi))), "fmt:collvarint",
                f"{nb}-byte code used outside the value range [{lo},{hi})")
        x = e.binop("Sub", v, Int(32, 0, bias))
        if nb < 5:
            exp = []
            for i in range(nb):
                sh = 8 * (nb - 1 - i)
                by = e.cast("IntToInt", e.binop("BitAnd", e.binop("Shr", x, Int(32, 0, sh)), Int(32, 0, 0xFF)), "u8")
                exp.append(e.binop("BitOr", by, Int(8, 0, pref)) if i == 0 else by)
        else:
            exp = [Int(8, 0, 0xF0)] + [e.cast("IntToInt", e.binop("BitAnd", e.binop("Shr", x, Int(32, 0, 8 * (3 - i))), Int(32, 0, 0xFF)), "u8") for i in range(4)]
        e.prove(e.eq_bytes(out, exp), "fmt:collvarint", f"{nb}-byte code does not follow the prefix/bias layout")
        # decode consumes exactly the code and returns the value
        data = Cell(VecObj(list(out) + [Int(8, 0, 0x55)]))
        ptr = Cell(Slice(data, (), 0, nb + 1))
        r = e.call_fn(COMMON, "CollectionVarInt::decode", [Ref(ptr)])
        e.prove(r.variant == 0, "fmt:collvarint", "decode failed on encode output")
        e.prove(e.binop("Eq", r.f[0], v), "fmt:collvarint", "decode(encode(v)) != v")
        rest = ptr.v
        e.prove(rest.hi - rest.lo == 1, "fmt:collvarint", "decode consumed a wrong number of bytes")
        return None

    def native(self, inp):
        return "collvarint", {"v": inp["v"]}

    def concrete_cases(self, rnd):
        T1 = 1 << 7; T2 = T1 + (1 << 14); T3 = T2 + (1 << 21); T4 = T3 + (1 << 28)
        return [{"v": x} for x in [0, T1 - 1, T1, T2 - 1, T2, T3 - 1, T3, T4 - 1, T4, (1 << 32) - 1, rnd.randrange(1 << 32)]]

    def compare(self, s, n):
        return s["bytes"] == n.get("bytes")


class StreamNames(Instance):
    crates = ("ragc-common",)
    required_witnesses = ("d1", "d2", "d3")

    def __init__(self, name, bits):
        Instance.__init__(self, name)
        self.bits = bits
        self.bounds = {"id": f"every n < 2^{bits}", "functions": "int_to_base64, stream_ref_name, stream_delta_name (archive version 3000)"}
        if bits > 18:
            self.required_witnesses = ("d1", "d2", "d3", "d4")

    def path(self, e):
        n = e.sym_int("n", 32, hi=(1 << self.bits) - 1)
        s = e.call_fn(COMMON, "int_to_base64", [n])
        out = e.vec_items(s)
        if e.concrete is not None:
            r = e.call_fn(COMMON, "stream_ref_name", [Int(32, 0, 3000), n]); d = e.call_fn(COMMON, "stream_delta_name", [Int(32, 0, 3000), n])
            return {"b64": [x.v for x in out], "ref": [x.v for x in e.vec_items(r)], "delta": [x.v for x in e.vec_items(d)]}
        k = len(out)
        e.witness(f"d{k}")
        # little-endian base-64 digits over the C++ alphabet, no leading (most-significant) zero digit except for n == 0
        val = Int(32, 0, 0)
        for i, ch in enumerate(out):
            digit = Int(32, 0, 0)
            isd = False
            for dv, c in enumerate(B64):
                hit = e.binop("Eq", ch, Int(8, 0, c))
                digit = ite_int(hit, Int(32, 0, dv), digit); isd = b_or(isd, hit)
            e.prove(isd, "fmt:base64", f"character {i} is not in the base-64 alphabet")
            val = e.binop("Add", val, e.binop("Shl", digit, Int(32, 0, 6 * i)))
        e.prove(e.binop("Eq", val, n), "fmt:base64", "digits do not spell n in little-endian base 64")
        if k > 1:
            e.prove(e.binop("Ne", out[-1], Int(8, 0, B64[0])), "fmt:base64", "most significant digit is zero")
        r = e.call_fn(COMMON, "stream_ref_name", [Int(32, 0, 3000), n]); d = e.call_fn(COMMON, "stream_delta_name", [Int(32, 0, 3000), n])
        rb, db = e.vec_items(r), e.vec_items(d)
        e.prove(e.eq_bytes(rb, [Int(8, 0, ord("x"))] + out + [Int(8, 0, ord("r"))]), "fmt:stream_name", "reference stream name is not x<base64>r")
        e.prove(e.eq_bytes(db, [Int(8, 0, ord("x"))] + out + [Int(8, 0, ord("d"))]), "fmt:stream_name", "delta stream name is not x<base64>d")
        return None

    def native(self, inp):
        return "stream_names", {"n": inp["n"]}

    def concrete_cases(self, rnd):
        return [{"n": x} for x in [0, 1, 63, 64, 65, 4095, 4096, (1 << self.bits) - 1, rnd.randrange(1 << self.bits)]]

    def compare(self, s, n):
        return s["b64"] == n.get("b64") and s["ref"] == n.get("ref") and s["delta"] == n.get("delta")


INSTANCES = {}


def _reg(i):
    INSTANCES[i.name] = i
    return i


_reg(Varint("varint")); _reg(CollVarint("collvarint")); _reg(StreamNames("names18", 18)); _reg(StreamNames("names24", 24))
QUICK = ["varint", "collvarint", "names18"]
THOROUGH = ["varint", "collvarint", "names24"]


def run(ctx):
    insts = [INSTANCES[n] for n in (QUICK if ctx["tier"] == "quick" else THOROUGH)]
    return run_instances("C02", "harness.C02", insts, ctx,
                         assumptions=["the format rules are those of AGC v3 as restated in the harness (prefix varints, length-prefixed big-endian integers, base-64 alphabet 0-9A-Za-z_#)",
                                      "whole-archive decoding by a third-party reader, pack addressing inside the worker pipeline and ZSTD payloads are outside this check (footer/part framing: C13 role archive:format)"])


# ---------------------------------------------------------------------------------------------------------------
# (d) pack addressing: one inductive step of the real flush_pack_compress_only from an arbitrary valid buffer state
CORE = "ragc-core"
SEP = 0xFF
PLACEHOLDER = 0x7F
PACK = 50


class PackStep(Instance):
    crates = ("ragc-core", "ragc-common")

    def __init__(self, name, raw_group):
        Instance.__init__(self, name)
        self.raw = raw_group
        self.required_witnesses = ("pack_emitted", "stored_raw", "stored_compressed")
        self.bounds = {"group": "raw group (id 3)" if raw_group else "LZ group (id 20, reference already written)",
                       "pre-state": "P in {0,1} full packs already written, pending deltas one short of a full pack (invariant: pending ids consecutive, id i at entry (i-1) mod 50 / i mod 50)",
                       "new segments": "1..2 with symbolic 2-byte data", "zstd": "lossless stub: token / n+1 / compress_bound(n) frame lengths"}

    def path(self, e):
        raw = self.raw
        gid = 3 if raw else 20
        P = e.choose(2, "P")
        first_raw_pack = raw and P == 0
        cap = PACK - 1 if first_raw_pack else PACK          # entries of unique deltas in the pack being filled
        npend = cap - 1
        first_id = P * PACK + (0 if raw else 1) + (1 if first_raw_pack else 0)
        if raw and P == 1:
            first_id = PACK
        S = lambda b: VecObj([Int(8, 0, x) for x in b], "String")
        pend = [VecObj([Int(8, 0, 100 + (j % 100)), Int(8, 0, j // 100 + 7)]) for j in range(npend)]
        pend_ids = [Int(32, 0, first_id + j) for j in range(npend)]
        nnew = 1 + e.choose(2, "nnew1")
        segs, datas = [], []
        for j in range(nnew):
            d = e.sym_bytes(f"seg{j}", 2, among=[0, 1, 2, 3])
            datas.append(d)
            segs.append(e.struct("agc_compressor.rs:BufferedSegment", sample_name=S(b"s"), contig_name=S(b"c"), seg_part_no=Int(64, 0, 5 + j), data=VecObj(list(d)),
                                 is_rev_comp=False, sample_priority=Int(32, 1, 0)))
        lz_opt, ref_opt = none(), none()
        if not raw:
            ref = [Int(8, 0, x) for x in (0, 1, 2, 3, 3, 2, 1, 0, 0, 2)]
            lz = e.call_fn(CORE, "LZDiff::new", [Int(32, 0, 20)]); lzc = Cell(lz)
            e.call_fn(CORE, "LZDiff::prepare", [Ref(lzc), Ref(Cell(VecObj(list(ref))))])
            lz_opt = some(lzc.v)
            ref_opt = some(e.struct("agc_compressor.rs:BufferedSegment", sample_name=S(b"r"), contig_name=S(b"c"), seg_part_no=Int(64, 0, 0), data=VecObj(list(ref)),
                                    is_rev_comp=False, sample_priority=Int(32, 1, 0)))
        buf = e.struct("agc_compressor.rs:SegmentGroupBuffer", group_id=Int(32, 0, gid), stream_id=Int(64, 0, 7), ref_stream_id=Int(64, 0, 8), reference_segment=ref_opt,
                       segments=VecObj(segs), ref_written=not raw, segments_written=Int(32, 0, first_id + npend), lz_diff=lz_opt, pending_deltas=VecObj(pend),
                       pending_delta_ids=VecObj(pend_ids), raw_placeholder_written=bool(raw and P == 1))
        cfgn = e.p.structs["agc_compressor.rs:StreamingQueueConfig"]
        cfgv = {n: Opaque("cfg:" + n) for n in cfgn}
        cfgv.update(min_match_len=Int(64, 0, 20), compression_level=Int(32, 1, 17), verbosity=Int(64, 0, 0))
        cfg = e.struct("agc_compressor.rs:StreamingQueueConfig", **cfgv)
        bc = Cell(buf)
        r = e.call_fn(CORE, "flush_pack_compress_only", [Ref(bc), Ref(Cell(cfg))])
        e.prove(r.variant == 0, "fmt:pack", "flush_pack_compress_only returned Err")
        res = r.f[0]
        writes = e.field(res, "FlushPackResult", "archive_writes").e
        regs = e.field(res, "FlushPackResult", "registrations").e
        # the new segments get consecutive ids unless an identical delta is already pending (dedup) or equals the reference (id 0)
        e.prove(len(regs) == nnew, "fmt:pack_registration", f"{len(regs)} registrations for {nnew} segments")
        for j, rg in enumerate(regs):
            e.prove(e.binop("Eq", e.field(rg, "SegmentRegistration", "raw_length"), Int(32, 0, 2)), "fmt:pack_registration", "registered raw_length differs from the segment length")
            e.prove(e.binop("Eq", e.field(rg, "SegmentRegistration", "group_id"), Int(32, 0, gid)), "fmt:pack_registration", "registered group id differs")
        e.prove(len(writes) == 1, "fmt:pack", f"{len(writes)} parts emitted when the pending pack became full (expected 1)")
        e.witness("pack_emitted")
        w = writes[0]
        data = e.vec_items(e.field(w, "PreCompressedPart", "data")); meta = e.field(w, "PreCompressedPart", "metadata")
        e.prove(e.binop("Eq", e.field(w, "PreCompressedPart", "stream_id"), Int(64, 0, 7)), "fmt:pack", "pack written to the wrong stream")
        # expected unpacked bytes per the format: [placeholder FF] entries each followed by FF, PACK entries in a full pack
        first_delta_text = None
        id0 = e.field(regs[0], "SegmentRegistration", "in_group_id")
        e.prove(e.binop("Eq", id0, Int(32, 0, first_id + npend)), "fmt:pack_addressing", f"the first new segment did not get in-group id {first_id + npend}")
        # reader's view of the part
        if meta.conc() and meta.v == 0:
            e.witness("stored_raw"); unpacked = data
        else:
            e.witness("stored_compressed")
            marker = data[-1]
            dec = e.call_fn(CORE, "decompress_segment_with_marker", [e.slice_of(data[:-1]), marker])
            e.prove(dec.variant == 0, "fmt:pack", "the reader cannot decompress the emitted pack")
            unpacked = e.vec_items(dec.f[0])
            e.prove(e.binop("Eq", meta, Int(64, 0, len(unpacked))), "fmt:pack_metadata", f"part metadata differs from the unpacked size {len(unpacked)} (0 is reserved for stored-raw parts)")
            e.prove(marker.conc() and marker.v == 0, "fmt:pack", "delta packs carry marker 0")
        nsep = 0
        for x in unpacked:
            if x.conc() and x.v == SEP:
                nsep += 1
        e.prove(nsep == PACK, "fmt:pack_addressing", f"a full pack must hold {PACK} 0xFF-terminated entries, this one has {nsep}")
        if first_raw_pack:
            e.prove(len(unpacked) >= 2 and unpacked[0].conc() and unpacked[0].v == PLACEHOLDER and unpacked[1].v == SEP, "fmt:pack_placeholder", "pack 0 of a raw group must start with the 0x7f placeholder entry")
        # every id of this pack is found by the reader's addressing rule
        ids = [first_id + j for j in range(npend)] + [first_id + npend]
        texts = [p_.e for p_ in pend] + [None]
        for i, txt in zip(ids, texts):
            pos = (i % PACK) if raw else ((i - 1) % PACK)
            pk = (i // PACK) if raw else ((i - 1) // PACK)
            e.prove(pk == P, "fmt:pack_addressing", f"id {i} belongs to pack {pk}, but it was written into pack {P}")
            got = e.call_fn(CORE, "Decompressor::unpack_contig", [e.slice_of(unpacked), Int(64, 0, pos)])
            e.prove(got.variant == 0, "fmt:pack_addressing", f"reader cannot find entry {pos}")
            gb = e.vec_items(got.f[0])
            if txt is not None:
                e.prove(e.eq_bytes(gb, txt), "fmt:pack_addressing", f"entry {pos} of pack {P} is not the delta with id {i}")
            elif raw:
                e.prove(e.eq_bytes(gb, datas_sorted_first(e, segs, datas)), "fmt:pack_addressing", f"entry {pos} of pack {P} is not the new segment with id {i}")
        return None

    def classify_panic(self, e, ex):
        return f"fmt:panic:{ex.where.split('::')[-1]}:{ex.kind}", str(ex)

    def native(self, inp):
        n = 1 + inp.get("nnew1", 0)
        return "pack_step", {"raw": self.raw, "P": inp.get("P", 0), "segs": [inp.get(f"seg{j}", [0, 1]) for j in range(n)]}


def datas_sorted_first(e, segs, datas):
    """segments are processed in sorted order (sample, contig, part): part numbers ascend with j, so the first is datas[0]"""
    return datas[0]


_reg(PackStep("pack_raw", True)); _reg(PackStep("pack_lz", False))
QUICK += ["pack_raw", "pack_lz"]; THOROUGH += ["pack_raw", "pack_lz"]
