"""C10 — segmentation tiles each contig with exact k-base overlaps at splitters.
E2 (mirsym) over the real split_at_splitters_with_size / split_at_splitters / Kmer MIR; the splitter set is an
uninterpreted predicate is_splitter: BV64 -> Bool, so one run covers every splitter set."""
import os, z3
from mirsym.values import *
from mirsym.values import b_and, b_or, b_not, mk, mkbool
from harness.base import Instance, run_instances

CORE = "ragc-core"
MISSING = (1 << 64) - 1
IS_SPLITTER = z3.Function("is_splitter", z3.BitVecSort(64), z3.BoolSort())


class SplitterOracle:
    """Model of the AHashSet<u64> argument: membership is the uninterpreted predicate (or a concrete set)."""
    def __init__(self, concrete=None):
        self.concrete = concrete

    def contains_model(self, e, key):
        if self.concrete is not None:
            if not key.conc():
                raise Unsupported("symbolic key with concrete splitter set")
            return key.v in self.concrete
        app = mkbool(IS_SPLITTER(key.z()))
        e.inputs.setdefault("queried", []).append([key, app])      # what the real code asked on this path
        return app


def splitters_from_model(e, m):
    """Every k-mer value on which the model's interpretation of is_splitter is true (explicit entries)."""
    fi = m[IS_SPLITTER]
    out = []
    if fi is not None:
        for ent in fi.as_list()[:-1]:
            if z3.is_true(ent[1]):
                out.append(ent[0].as_long())
    return out


def pack_window(e, w, k):
    """Independent packing of a window of k base codes (all < 4 on this path): (dir, rc, canonical, is_dir)."""
    d = Int(64, 0, 0); r = Int(64, 0, 0)
    for j in range(k):
        bj = e.cast("IntToInt", w[j], "u64")
        cj = e.binop("Sub", Int(64, 0, 3), e.cast("IntToInt", w[k - 1 - j], "u64"))
        d = e.binop("BitOr", d, e.binop("Shl", bj, Int(32, 0, 62 - 2 * j)))
        r = e.binop("BitOr", r, e.binop("Shl", cj, Int(32, 0, 62 - 2 * j)))
    le = e.binop("Le", d, r)
    from mirsym.models import ite_int
    return d, r, ite_int(le, d, r), le


class Seg(Instance):
    def __init__(self, name, fn, k, maxlen, alpha, fixed_prefix=None):
        Instance.__init__(self, name)
        self.fn, self.k, self.maxlen, self.alpha, self.fixed_prefix = fn, k, maxlen, alpha, fixed_prefix
        self.required_witnesses = ("multi_segment", "single_segment") if maxlen > k else ("single_segment",)
        self.bounds = {"function": fn, "k": k, "contig": f"every contig of length 0..{maxlen} over codes {alpha}" +
                       (f" after the concrete prefix {fixed_prefix}" if fixed_prefix else ""), "splitter_set": "all sets (uninterpreted predicate over canonical k-mer values)"}

    def path(self, e):
        k = self.k
        pre = [Int(8, 0, x) for x in (self.fixed_prefix or [])]
        n = e.choose(self.maxlen + 1, "n")
        c = pre + e.sym_bytes("c", n, among=self.alpha)
        n = len(c)
        conc = e.concrete is not None
        oracle = SplitterOracle(set(e.concrete["splitters"]) if conc else None)
        if not conc:
            # record, for counterexample extraction, the predicate's value on every window of the contig
            wins = []
            for p in range(k - 1, n):
                w = c[p - k + 1:p + 1]
                d, r, can, le = pack_window(e, w, k)
                wins.append([can, mkbool(IS_SPLITTER(can.z()))])
            e.inputs["windows"] = wins
            e.inputs["splitters_model"] = splitters_from_model
        args = [Ref(Cell(VecObj(list(c)))), Ref(Cell(oracle)), Int(64, 0, k)]
        if self.fn == "split_at_splitters_with_size":
            args.append(Int(64, 0, 1000))
        segs = e.call_fn(CORE, self.fn, args)
        S = e.vec_items(segs)
        out = []
        for s in S:
            data = e.vec_items(s.f[0])
            out.append({"data": data, "front": s.f[1], "back": s.f[2], "front_dir": s.f[3], "back_dir": s.f[4]})
        if conc:
            return [{"data": [x.v for x in s["data"]], "front": s["front"].v, "back": s["back"].v, "front_dir": bool(s["front_dir"]), "back_dir": bool(s["back_dir"])} for s in out]
        # ---------------- assertions (all lengths are concrete on a path; bytes / k-mer words are symbolic)
        e.prove(len(out) >= 1, "seg:tiling", "no segment returned")
        e.witness("multi_segment" if len(out) > 1 else "single_segment")
        pos = 0       # start of the current segment in the contig
        bounds = []
        for i, s in enumerate(out):
            L = len(s["data"])
            if i > 0:
                e.prove(L >= k, "seg:short_later_segment", f"segment {i} has {L} < k={k} bases")
            start = pos if i == 0 else pos - k
            e.prove(start >= 0 and start + L <= n, "seg:tiling", f"segment {i} [{start},{start + L}) outside the contig of length {n}")
            e.prove(e.eq_bytes(s["data"], c[start:start + L]), "seg:tiling", f"segment {i} is not contig[{start}..{start + L}] (k-overlap / re-assembly broken)")
            bounds.append((start, start + L))
            pos = start + L
        e.prove(pos == n, "seg:tiling", f"segments end at {pos}, contig has {n} bases")
        e.prove(e.binop("Eq", out[0]["front"], Int(64, 0, MISSING)), "seg:kmer_record", "first segment has a front k-mer")
        e.prove(e.binop("Eq", out[-1]["back"], Int(64, 0, MISSING)), "seg:kmer_record", "last segment has a back k-mer")
        e.prove(b_not(out[0]["front_dir"]), "seg:kmer_record", "first segment front_is_dir set")
        e.prove(b_not(out[-1]["back_dir"]), "seg:kmer_record", "last segment back_is_dir set")
        for i in range(len(out) - 1):
            s, t = out[i], out[i + 1]
            st, en = bounds[i]
            w = c[en - k:en]
            allb = True
            for x in w:
                allb = b_and(allb, e.binop("Lt", x, Int(8, 0, 4)))
            e.prove(allb, "seg:boundary_not_splitter", f"boundary k-mer of segments {i}/{i + 1} contains a non-ACGT code")
            d, r, can, le = pack_window(e, w, k)
            e.prove(mkbool(IS_SPLITTER(can.z())), "seg:boundary_not_splitter", f"boundary k-mer of segments {i}/{i + 1} is not in the splitter set")
            e.prove(e.binop("Eq", s["back"], can), "seg:kmer_record", f"back k-mer of segment {i} is not the canonical boundary k-mer")
            e.prove(e.binop("Eq", t["front"], can), "seg:kmer_record", f"front k-mer of segment {i + 1} is not the canonical boundary k-mer")
            e.prove(e.binop("Eq", s["back_dir"], le), "seg:kmer_record", f"back_is_dir of segment {i} != (dir <= rc)")
            e.prove(e.binop("Eq", t["front_dir"], le), "seg:kmer_record", f"front_is_dir of segment {i + 1} != (dir <= rc)")
        # completeness: no eligible splitter occurrence strictly inside a segment (window restarts after a split and at non-ACGT codes)
        for i, (st, en) in enumerate(bounds):
            first_end = (bounds[i - 1][1] if i > 0 else 0) + k - 1      # first window starting at/after the previous split end
            last_end = en - 2 if i < len(bounds) - 1 else en - 1          # the boundary window itself is the split
            for p in range(first_end, last_end + 1):
                w = c[p - k + 1:p + 1]
                allb = True
                for x in w:
                    allb = b_and(allb, e.binop("Lt", x, Int(8, 0, 4)))
                if allb is False:
                    continue
                d, r, can, le = pack_window(e, w, k)
                e.prove(b_or(b_not(allb), b_not(mkbool(IS_SPLITTER(can.z())))), "seg:missed_split", f"splitter occurrence ending at {p} inside segment {i} did not split")
        return None

    def classify_panic(self, e, ex):
        return f"seg:panic:{ex.where.split('::')[-1]}:{ex.kind}", str(ex)

    def _case(self, inp):
        pre = list(self.fixed_prefix or [])
        spl = inp["splitters"] if "splitters" in inp else sorted({w[0] for w in inp.get("windows", []) + inp.get("queried", []) if w[1]} | set(inp.get("splitters_model", [])))
        return {"fn": self.fn, "k": self.k, "contig": pre + list(inp["c"]), "splitters": [str(x) for x in spl]}

    def native(self, inp):
        return "segment", self._case(inp)

    def confirm(self, viol, outs):
        return any(("panic" in o or "crash" in o or o.get("ok") is False) for o in outs.values())

    def concrete_cases(self, rnd):
        out = []
        k = self.k
        for _ in range(30):
            n = rnd.randrange(self.maxlen + 1)
            c = [rnd.choice(self.alpha) for _ in range(n)]
            full = list(self.fixed_prefix or []) + c
            vals = set()
            for p in range(k - 1, len(full)):
                w = full[p - k + 1:p + 1]
                if all(x < 4 for x in w):
                    d = sum(w[j] << (62 - 2 * j) for j in range(k)); r = sum((3 - w[k - 1 - j]) << (62 - 2 * j) for j in range(k))
                    vals.add(min(d, r))
            spl = sorted(v for v in vals if rnd.random() < 0.4)
            out.append({"n": n, "c": c, "splitters": spl})
        return out

    def compare(self, s, n):
        return s == n.get("segments")


INSTANCES = {}


def _reg(i):
    INSTANCES[i.name] = i
    return i


SN = [0, 1, 2, 3, 4]
QUICK, THOROUGH = [], []
for _k, _n in ((1, 5), (2, 6), (3, 6)):
    QUICK.append(_reg(Seg(f"ws_k{_k}", "split_at_splitters_with_size", _k, _n, SN)).name)
QUICK.append(_reg(Seg("legacy_k2", "split_at_splitters", 2, 5, SN)).name)
QUICK.append(_reg(Seg("ws_k31", "split_at_splitters_with_size", 31, 5, SN, fixed_prefix=[(i * 7 + 3) % 4 for i in range(29)])).name)
QUICK.append(_reg(Seg("ws_k32", "split_at_splitters_with_size", 32, 4, SN, fixed_prefix=[(i * 5 + 1) % 4 for i in range(31)])).name)
for _k, _n in ((1, 7), (2, 8), (3, 8), (4, 8)):
    THOROUGH.append(_reg(Seg(f"T_ws_k{_k}", "split_at_splitters_with_size", _k, _n, SN)).name)
THOROUGH.append(_reg(Seg("T_ws_k2_iupac", "split_at_splitters_with_size", 2, 7, [0, 1, 2, 3, 4, 5, 15])).name)
THOROUGH.append(_reg(Seg("T_legacy_k2", "split_at_splitters", 2, 7, SN)).name)
THOROUGH.append(_reg(Seg("T_legacy_k3", "split_at_splitters", 3, 7, SN)).name)
THOROUGH.append(_reg(Seg("T_ws_k31", "split_at_splitters_with_size", 31, 7, SN, fixed_prefix=[(i * 7 + 3) % 4 for i in range(29)])).name)
THOROUGH.append(_reg(Seg("T_ws_k32", "split_at_splitters_with_size", 32, 6, SN, fixed_prefix=[(i * 5 + 1) % 4 for i in range(31)])).name)


def run(ctx):
    insts = [INSTANCES[n] for n in (QUICK if ctx["tier"] == "quick" else THOROUGH)]
    return run_instances("C10", "harness.C10", insts, ctx,
                         assumptions=["AHashSet::contains is a pure membership test (modelled as an uninterpreted predicate)",
                                      "a splitter 'occurrence' is a window of k consecutive ACGT codes that starts at or after the end of the previous split (window restart), as in C++ AGC"])
