"""C12 — segment and pack compression is lossless. E2 (mirsym) over the real tuple_packing / segment_compression MIR."""
import z3
from mirsym.values import *
from harness.base import Instance, run_instances

CORE = "ragc-core"


class TupleRoundTrip(Instance):
    """forall byte strings of length 0..N over all 256 values: unpack(pack(b)) == b and pack(b) has the specified layout."""
    required_witnesses = ("class4", "class6", "class16", "raw", "empty")

    def __init__(self, name, maxlen):
        Instance.__init__(self, name)
        self.maxlen = maxlen
        self.bounds = {"length": f"0..{maxlen}", "alphabet": "all 256 byte values", "functions": "bytes_to_tuples, pack_tuples<4,4|3,6|2,16>, tuples_to_bytes, unpack_tuples"}

    def path(self, e):
        n = e.choose(self.maxlen + 1, "n")
        b = e.sym_bytes("b", n)
        packed = e.call_fn(CORE, "bytes_to_tuples", [e.slice_of(b)])
        p = e.vec_items(packed)
        # ---- layout oracle (format rule)
        if n == 0:
            e.witness("empty")
            e.prove(e.eq_bytes(p, [Int(8, 0, 0x10)]), "tuple:layout", "empty input must pack to [0x10]")
        else:
            # the path has already decided the class by comparing the maximum; recover it from the marker
            lt4 = True; lt6 = True; lt16 = True
            for x in b:
                lt4 = b_and(lt4, e.binop("Lt", x, Int(8, 0, 4)))
                lt6 = b_and(lt6, e.binop("Lt", x, Int(8, 0, 6)))
                lt16 = b_and(lt16, e.binop("Lt", x, Int(8, 0, 16)))
            if e.branch(lt4):
                N, MAX = 4, 4; e.witness("class4")
            elif e.branch(lt6):
                N, MAX = 3, 6; e.witness("class6")
            elif e.branch(lt16):
                N, MAX = 2, 16; e.witness("class16")
            else:
                N, MAX = 1, 0; e.witness("raw")
            if N == 1:
                exp = list(b) + [Int(8, 0, 0x10)]
            else:
                exp = []
                i = 0
                while i + N <= n:
                    c = Int(32, 0, 0)
                    for j in range(N):
                        c = e.binop("Add", e.binop("Mul", c, Int(32, 0, MAX)), e.cast("IntToInt", b[i + j], "u32"))
                    exp.append(e.cast("IntToInt", c, "u8")); i += N
                c = Int(32, 0, 0)
                while i < n:
                    c = e.binop("Add", e.binop("Mul", c, Int(32, 0, MAX)), e.cast("IntToInt", b[i], "u32")); i += 1
                exp.append(e.cast("IntToInt", c, "u8"))
                exp.append(Int(8, 0, (N << 4) | (n % N)))
            e.prove(len(p) == len(exp), "tuple:layout", f"packed length {len(p)} != format length {len(exp)} (n={n}, N={N})")
            e.prove(e.eq_bytes(p, exp), "tuple:layout", f"packed bytes differ from the format rule (n={n}, N={N})")
        # ---- round trip
        un = e.call_fn(CORE, "tuples_to_bytes", [e.slice_of(p)])
        u = e.vec_items(un)
        e.prove(len(u) == n, "tuple:roundtrip", f"unpacked length {len(u)} != {n}")
        e.prove(e.eq_bytes(u, b), "tuple:roundtrip", "unpack(pack(b)) != b")
        return {"packed": [e.eval_concrete(x) for x in p], "unpacked": [e.eval_concrete(x) for x in u]}

    def native(self, inputs):
        return "tuple_roundtrip", {"b": inputs["b"]}

    def confirm(self, viol, outs):
        for o in outs.values():
            if "panic" in o or "crash" in o or o.get("unpacked") != o.get("input") or o.get("layout_ok") is False:
                return True
        return False

    def concrete_cases(self, rnd):
        out = []
        for mx in (4, 6, 16, 256):
            for n in (0, 1, 3, 4, 5, 7, self.maxlen):
                out.append({"n": n, "b": [rnd.randrange(mx) for _ in range(n)]})
        rnd.shuffle(out)
        return out

    def compare(self, s, n):
        return s["packed"] == n.get("packed") and s["unpacked"] == n.get("unpacked")


class TupleLong(Instance):
    """Long inputs: lengths at and around every multiple of 256 up to 1024 and all remainders modulo the tuple widths; the class (tuple
    width) is decided by one symbolic byte (values 0..17), the other bytes follow a fixed pattern below every class bound. The marker
    must be (width << 4 | len mod width) and unpack(pack(b)) == b."""
    required_witnesses = ("class4", "class6", "class16", "raw")
    LENS = [15, 16, 17, 254, 255, 256, 257, 258, 259, 511, 512, 513, 514, 767, 768, 769, 770]

    def __init__(self, name, lens=None):
        Instance.__init__(self, name)
        self.lens = lens or self.LENS
        self.n_concrete = 6
        self.bounds = {"length": f"one of {self.lens}", "content": "byte i = i mod 4, except one symbolic byte (the last) over 0..17 that decides the symbol class", "functions": "bytes_to_tuples, tuples_to_bytes"}

    def path(self, e):
        n = self.lens[e.choose(len(self.lens), "len_i")]
        e.inputs["n"] = n
        top = e.sym_bytes("top", 1, among=list(range(18)))[0]
        b = [Int(8, 0, i % 4) for i in range(n - 1)] + [top]            # last position: the running maximum stays concrete until the end
        p = e.vec_items(e.call_fn(CORE, "bytes_to_tuples", [e.slice_of(b)]))
        if e.concrete is not None:
            u = e.vec_items(e.call_fn(CORE, "tuples_to_bytes", [e.slice_of(p)]))
            return {"packed": [x.v for x in p], "unpacked": [x.v for x in u]}
        if e.branch(e.binop("Lt", top, Int(8, 0, 4))):
            N = 4; e.witness("class4")
        elif e.branch(e.binop("Lt", top, Int(8, 0, 6))):
            N = 3; e.witness("class6")
        elif e.branch(e.binop("Lt", top, Int(8, 0, 16))):
            N = 2; e.witness("class16")
        else:
            N = 1; e.witness("raw")
        if N == 1:
            e.prove(len(p) == n + 1 and p[-1].conc() and p[-1].v == 0x10, "tuple:layout", f"raw class: packed length/marker wrong (n={n})")
        else:
            e.prove(len(p) == n // N + 2, "tuple:layout", f"packed length {len(p)} != {n // N + 2} (n={n}, width {N})")
            e.prove(p[-1].conc() and p[-1].v == ((N << 4) | (n % N)), "tuple:layout", f"marker byte is {p[-1].v if p[-1].conc() else '?'}, the format says {(N << 4) | (n % N):#x} (n={n}, width {N})")
        u = e.vec_items(e.call_fn(CORE, "tuples_to_bytes", [e.slice_of(p)]))
        e.prove(len(u) == n, "tuple:roundtrip", f"unpacked length {len(u)} != {n}")
        e.prove(e.eq_bytes(u, b), "tuple:roundtrip", "unpack(pack(b)) != b")
        return None

    def classify_panic(self, e, ex):
        return f"tuple:panic:{ex.where.split('::')[-1]}:{ex.kind}", str(ex)

    def native(self, inp):
        n = inp.get("n") or self.lens[inp.get("len_i", 0)]
        return "tuple_roundtrip", {"b": [i % 4 for i in range(n - 1)] + [(inp.get("top") or [0])[0]]}

    def confirm(self, viol, outs):
        for o in outs.values():
            if "panic" in o or "crash" in o or o.get("unpacked") != o.get("input"):
                return True
        return False

    def concrete_cases(self, rnd):
        return [{"len_i": rnd.randrange(len(self.lens)), "top": [rnd.choice([0, 3, 4, 5, 6, 15, 16])]} for _ in range(6)]

    def compare(self, s, n):
        return s["packed"] == n.get("packed") and s["unpacked"] == n.get("unpacked")


class RefSegment(Instance):
    """compress_reference_segment / compress_segment_configured + decompress_segment_with_marker with ZSTD as a lossless stub
    whose frame size is a free choice (small or worst case): marker in {0,1}, marker 1 <=> tuple-packed payload,
    decompression with the stored marker returns the data."""
    def __init__(self, name, maxlen, alpha):
        Instance.__init__(self, name)
        self.maxlen, self.alpha = maxlen, alpha
        self.required_witnesses = ("marker0", "marker1", "empty")
        self.bounds = {"data": f"every byte string of length 0..{maxlen} over {alpha} (both sides of the 0.5 repetitiveness threshold)", "zstd": "abstract lossless codec, frame size n+1 or compress_bound(n)"}

    def path(self, e):
        n = e.choose(self.maxlen + 1, "n")
        d = e.sym_bytes("d", n, among=self.alpha)
        r = e.call_fn(CORE, "compress_reference_segment", [Ref(Cell(VecObj(list(d))))])
        e.prove(r.variant == 0, "seg:compress_failed", "compress_reference_segment returned Err")
        comp, marker = r.f[0].f[0], r.f[0].f[1]
        e.prove(marker.conc() and marker.v in (0, 1), "seg:marker", "marker byte is not 0 or 1")
        e.witness(f"marker{marker.v}")
        if n == 0:
            e.witness("empty")
        from mirsym.models_io import zstd_decode_all
        payload = zstd_decode_all(e, "zstd::decode_all::<&[u8]>", [e.as_slice(Ref(Cell(comp)))])
        pb = e.vec_items(payload.f[0])
        if marker.v == 1:
            exp = e.vec_items(e.call_fn(CORE, "bytes_to_tuples", [e.slice_of(d)]))
            e.prove(e.eq_bytes(pb, exp), "seg:marker", "marker 1 but the payload is not the tuple-packed data")
        else:
            e.prove(e.eq_bytes(pb, d), "seg:marker", "marker 0 but the payload is not the plain data")
        back = e.call_fn(CORE, "decompress_segment_with_marker", [e.as_slice(Ref(Cell(comp))), marker])
        e.prove(back.variant == 0, "seg:roundtrip", "decompress_segment_with_marker failed on compress_reference_segment output")
        bb = e.vec_items(back.f[0])
        e.prove(len(bb) == n and e.eq_bytes(bb, d), "seg:roundtrip", "decompress(compress(data), marker) != data")
        # delta packs: plain path
        r2 = e.call_fn(CORE, "compress_segment_configured", [Ref(Cell(VecObj(list(d)))), Int(32, 1, 17)])
        e.prove(r2.variant == 0, "seg:compress_failed", "compress_segment_configured returned Err")
        b2 = e.call_fn(CORE, "decompress_segment_with_marker", [e.as_slice(Ref(Cell(r2.f[0]))), Int(8, 0, 0)])
        if n > 0:
            e.prove(b2.variant == 0 and e.eq_bytes(e.vec_items(b2.f[0]), d), "seg:roundtrip", "delta-pack compression is not inverted by decompression with marker 0")
        return None

    def classify_panic(self, e, ex):
        return f"seg:panic:{ex.where.split('::')[-1]}:{ex.kind}", str(ex)

    def native(self, inp):
        return "refseg_roundtrip", {"d": inp.get("d", [])}


INSTANCES = {}


def _reg(i):
    INSTANCES[i.name] = i
    return i


_reg(TupleRoundTrip("tuple_q", 9))
_reg(TupleRoundTrip("tuple_t", 14))
_reg(TupleLong("tuple_long"))
_reg(RefSegment("refseg_q", 6, [0, 1, 4, 30]))
_reg(RefSegment("refseg_t", 8, [0, 1, 2, 3, 4, 30]))


def run(ctx):
    insts = [INSTANCES["tuple_q"], INSTANCES["tuple_long"], INSTANCES["refseg_q"]] if ctx["tier"] == "quick" else [INSTANCES["tuple_t"], INSTANCES["tuple_long"], INSTANCES["refseg_t"]]
    return run_instances("C12", "harness.C12", insts, ctx,
                         assumptions=["libzstd is lossless and context reuse does not change output (ZSTD is C code behind FFI: abstract lossless codec stub)"])
