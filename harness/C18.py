"""C18 — behaviour independent of integer-overflow checking. E2 (mirsym), overflow-checks=on MIR: every arithmetic
operation carries its overflow assert, so "no overflow panic is reachable" is decided path-wise by the solver; when no
such assert can fail the wrapping (release) and checked (dev/test) semantics compute the same values.
Dedicated instances for the four anchored sites:
 - LZDiff::estimate / get_coding_cost_vector on reference/target pairs (shape instances of C09),
 - Archive::deserialize footer arithmetic (the C14 truncation instances; panics of kind overflow),
 - get_contig_length / get_contig_range (`raw_length - k`; the C07 instances under the C10 precondition),
 - the sync-token priority arithmetic in StreamingQueueCompressor::push (real push executed with a symbolic number of
   earlier samples; the initial priority constant is read from with_splitters_internal's MIR)."""
import os, re, z3
from mirsym.values import *
from mirsym.values import b_and, b_or, b_not
from mirsym.models_coll import MapObj
from mirsym.sched import MutexObj
from harness.base import Instance, run_instances
import harness.C09 as C09, harness.C14 as C14, harness.C07 as C07

CORE = "ragc-core"



def site(ex):
    """call site of a panic, specific enough to tell one function from another of the same name: <module>::<fn>[<operation>]"""
    w = ex.where
    mod = w.split("::")[0]
    fn = w.split("::")[-1]
    op = re.search(r"`\{\} (\S+) \{\}`", ex.msg or "") or re.search(r"attempt to (\w+)", ex.msg or "")
    return f"{mod}::{fn}" + (f"[{op.group(1)}]" if op else "")

class Estimate(C09.LZShape):
    """estimate() and get_coding_cost_vector() on shaped targets: no arithmetic-overflow panic."""
    def path(self, e):
        mm = self.mms[e.choose(len(self.mms), "mm_i")]
        tgt = self.build_target(e)
        e.inputs["mm"] = mm; e.inputs["tgt_full"] = tgt; e.inputs["ref"] = self.ref
        lz = e.call_fn(CORE, "LZDiff::new", [Int(32, 0, mm)]); lzc = Cell(lz)
        e.call_fn(CORE, "LZDiff::prepare", [Ref(lzc), Ref(Cell(VecObj([Int(8, 0, x) for x in self.ref])))])
        est = e.call_fn(CORE, "LZDiff::estimate", [Ref(lzc), Ref(Cell(VecObj(list(tgt)))), Int(32, 0, (1 << 32) - 1)])
        for pref in (True, False):
            cv = e.call_fn(CORE, "LZDiff::get_coding_cost_vector", [Ref(lzc), Ref(Cell(VecObj(list(tgt)))), pref])
            e.prove(len(e.vec_items(cv)) == len(tgt), "ovf:cost_vector_length", "cost vector length differs from the target length")
        e.witness("done")
        return {"est": e.eval_concrete(est)}

    def classify_panic(self, e, ex):
        return f"ovf:{site(ex)}:{ex.kind}", str(ex)

    def native(self, inp):
        mm = inp.get("mm", self.mms[inp.get("mm_i", 0)])
        tgt = inp["tgt_full"] if "tgt_full" in inp else self.concrete_target(inp)
        return "lz_estimate", {"ref": self.ref, "tgt": tgt, "mm": mm}

    def confirm(self, viol, outs):
        d, r = outs.get("dev", {}), outs.get("release", {})
        return "panic" in d or "crash" in d or d.get("est") != r.get("est")

    def compare(self, s, n):
        return s["est"] == n.get("est")


class PushPriority(Instance):
    """Real StreamingQueueCompressor::push in single-file (concatenated) mode with pack_size 2: the second contig reaches the
    pack boundary and builds the sync tokens' priority."""
    required_witnesses = ("sync_tokens",)
    bounds = {"earlier_samples": "symbolic 0..2^21 (each lowered the running priority by one)", "pack_size": 2, "num_threads": "1..2",
              "initial_priority": "constant read from with_splitters_internal's MIR"}

    def initial_priority(self, e):
        for (cr, name), f in e.p.funcs.items():
            if cr == CORE and name.endswith("with_splitters_internal"):
                e.p.parse_body(f)
                for b in f.raw.values():
                    for t in b:
                        m = re.search(r"Mutex::<i32>::new\(const ([^)]+)\)", t)
                        if m:
                            return e.const_value(m.group(1), type("F", (), {"gen": {}, "f": f})())
        raise Unsupported("initial next_priority constant not found in with_splitters_internal")

    def path(self, e):
        init = self.initial_priority(e)
        a = e.sym_int("earlier_samples", 32, hi=1 << 21)
        start = e.binop("Sub", init, Int(32, 1, a.v if a.conc() else a.v))
        nthreads = 1 + e.choose(2, "threads1")
        names = e.p.structs["agc_compressor.rs:StreamingQueueCompressor"]
        cfgn = e.p.structs["agc_compressor.rs:StreamingQueueConfig"]
        cfgv = {n: Opaque("cfg:" + n) for n in cfgn}
        cfgv.update(k=Int(64, 0, 21), segment_size=Int(64, 0, 1000), min_match_len=Int(64, 0, 20), compression_level=Int(32, 1, 17), num_threads=Int(64, 0, nthreads),
                    queue_capacity=Int(64, 0, 1 << 30), verbosity=Int(64, 0, 0), adaptive_mode=False, fallback_frac=0.0, batch_size=Int(64, 0, 50), pack_size=Int(64, 0, 2),
                    concatenated_genomes=True)
        cfg = e.struct("agc_compressor.rs:StreamingQueueConfig", **cfgv)
        q = e.call_fn(CORE, "MemoryBoundedQueue::new", [Int(64, 0, 1 << 30)])
        coll = e.call_fn("ragc-common", "CollectionV3::new", [])
        spl = MapObj(False, True); spl.items.append([Int(64, 0, 12345), UNIT])
        arc = lambda v: Ref(Cell(v))
        vals = {n: Opaque("unused:" + n) for n in names}
        vals.update(queue=arc(q), collection=arc(MutexObj(coll)), splitters=arc(spl), workers=VecObj([Opaque("handle")]), config=cfg,
                    reference_sample_name=arc(MutexObj(arc(none()) if False else none())), next_sequence=arc(Agg([Int(64, 0, 0)], ty="Atomic")),
                    sample_priorities=arc(MutexObj(MapObj(True, False))), next_priority=arc(MutexObj(start)),
                    global_contig_count=arc(Agg([Int(64, 0, 0)], ty="Atomic")), last_sample_name=arc(MutexObj(none())))
        comp = Cell(e.struct("agc_compressor.rs:StreamingQueueCompressor", **vals))
        S = lambda b: VecObj([Int(8, 0, x) for x in b], "String")
        for i in range(2):
            r = e.call_fn(CORE, "StreamingQueueCompressor::push", [Ref(comp), S(b"s1#1"), S(b"s1#1#c%d" % i), VecObj([Int(8, 0, 0)] * 5)])
            e.prove(r.variant == 0, "ovf:push_failed", "push returned Err")
        ln = e.call_fn(CORE, "MemoryBoundedQueue::len", [Ref(Cell(q))])
        e.prove(e.binop("Eq", ln, Int(64, 0, 2 + nthreads)), "ovf:sync_tokens", "expected 2 contigs + num_threads sync tokens in the queue")
        e.witness("sync_tokens")
        return None

    def classify_panic(self, e, ex):
        return f"ovf:{site(ex)}:{ex.kind}", str(ex)

    def native(self, inp):
        return "push_priority", {"earlier_samples": inp.get("earlier_samples", 0), "threads": 1 + inp.get("threads1", 0)}

    def confirm(self, viol, outs):
        d = outs.get("dev", {})
        return "panic" in d or "crash" in d


def _ovf_only(inst_cls_obj, name):
    """Wrap an instance of another property so that only overflow panics count here."""
    i = inst_cls_obj
    base_classify = i.classify_panic

    def classify(e, ex, _b=base_classify):
        if ex.kind != "overflow":
            return None, ""
        return f"ovf:{site(ex)}:overflow", str(ex)
    import copy
    j = copy.copy(i); j.name = name; j.classify_panic = classify
    j.required_witnesses = ()
    return j


INSTANCES = {}


def _reg(i):
    INSTANCES[i.name] = i
    return i


_SEED = int(os.environ.get("VERIF_SEED", "0") or 0)
QUICK, THOROUGH = [], []
for _nm, _ref in C09.shape_refs(_SEED).items():
    if _nm in ("rand", "repeat"):
        i = _reg(Estimate(f"est_window_{_nm}", _ref, "window", [5], C09.SIGMA_30, small=True)); i.required_witnesses = ("done",); QUICK.append(i.name)
    for _kind in ("window", "subst", "indel"):
        i = _reg(Estimate(f"T_est_{_kind}_{_nm}", _ref, _kind, [4, 5, 6], C09.SIGMA_30, small=(_kind != "window"))); i.required_witnesses = ("done",); THOROUGH.append(i.name)
QUICK.append(_reg(PushPriority("push_priority")).name); THOROUGH.append("push_priority")
QUICK.append(_reg(_ovf_only(C14.INSTANCES["sym_x0d"], "footer_arith")).name); THOROUGH.append(_reg(_ovf_only(C14.INSTANCES["T_sym_details"], "T_footer_arith")).name)
QUICK.append(_reg(_ovf_only(C07.INSTANCES["k2"], "range_arith")).name); THOROUGH.append(_reg(_ovf_only(C07.INSTANCES["T_k3"], "T_range_arith")).name)


# queue arithmetic with items larger than the capacity and zero-size tokens (every interleaving), and the whole pipeline with a queue
# smaller than one contig: no overflow assert may be reachable there either
from harness import C05 as _C05
for _src, _nm in (("over_p1c1", "queue_arith_over"), ("tokens_p1c1", "queue_arith_tokens"), ("pipe_api_t1_smallq", "pipe_arith_smallq")):
    QUICK.append(_reg(_ovf_only(_C05.INSTANCES[_src], _nm)).name); THOROUGH.append(_nm)
THOROUGH.append(_reg(_ovf_only(_C05.INSTANCES["T_pipe_api_t3"], "T_pipe_arith_t3")).name)


def run(ctx):
    insts = [INSTANCES[n] for n in (QUICK if ctx["tier"] == "quick" else THOROUGH)]
    return run_instances("C18", "harness.C18", insts, ctx,
                         assumptions=["the two profiles differ only in overflow checks (the crates contain no debug_assert!): absence of a reachable overflow assert implies identical results",
                                      "whole-archive equality across profiles is outside the claim; the overflow asserts met by every other E2 harness (C01..C19) are reported by those checks as panics as well",
                                      "descriptor precondition of C07 (later segments >= k bases)"])
