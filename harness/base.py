"""Common driver for E2 (mirsym) harness modules: explore every instance, replay counterexamples natively,
validate the engine against the native build on concrete inputs, assemble evidence."""
import json, os, random, time, hashlib
from concurrent.futures import ProcessPoolExecutor
from lib import common, replay
from lib.common import log
from mirsym import explore as ex


class Instance:
    crates = ("ragc-core", "ragc-common")
    overflow_checks = True          # False: interpret the MIR compiled with -C overflow-checks=off (what release binaries run)
    required_witnesses = ()
    bounds = {}
    n_concrete = 12
    max_wall = 1500
    max_paths = 3_000_000

    def __init__(self, name):
        self.name = name

    def setup(self, e):
        pass

    # --- native side
    def native(self, inputs):
        """(replay command, case json) for a set of concrete inputs."""
        raise NotImplementedError

    def confirm(self, viol, outs):
        """Does the native output (dict profile->json) reproduce the violation? Default: a panic/crash or an explicit failed flag."""
        for prof, o in outs.items():
            if "panic" in o or "crash" in o or o.get("ok") is False:
                return True
        return False

    def concrete_cases(self, rnd):
        return []

    def compare(self, sym_out, native_out):
        return sym_out == native_out


def _pool(jobs):
    return ProcessPoolExecutor(max_workers=jobs)


def run_instances(prop, mod_name, instances, ctx, level="model_checking", assumptions=(), explanation=""):
    tier, seed = ctx["tier"], ctx["seed"]
    only = ctx.get("only")
    rnd = random.Random(seed)
    # make sure dumps exist before forking workers (single dump, shared by all)
    crates = sorted({c for i in instances for c in i.crates})
    mirs = {c: common.mir_dump(c) for c in crates}
    for i in instances:
        if not getattr(i, "overflow_checks", True):          # release-profile semantics (wrapping arithmetic) for these instances
            for c in i.crates:
                mirs[c + " (overflow-checks off)"] = common.mir_dump(c, False)
    replay.build("dev")
    pool = _pool(common.NCPU)
    viols, inconc, per_inst = [], [], []
    tot = {"paths": 0, "completed": 0, "queries": 0, "solver_s": 0.0, "branches": 0, "steps": 0, "panics": 0}
    funcs, models, samples, notes = {}, {}, [], {}
    validated = 0
    try:
        for inst in instances:
            if only and inst.name not in only:
                continue
            t0 = time.time()
            agg = ex.explore(mod_name, inst.name, jobs=common.NCPU, pool=pool, max_wall=inst.max_wall, max_paths=inst.max_paths)
            log(f"[{prop}] {inst.name}: paths={agg['paths']} completed={agg['completed']} panics={agg['panics']} viol={agg['violation_counts']} "
                f"queries={agg['queries']} solver={agg['solver_s']:.1f}s wall={agg['wall_s']}s exhaustive={agg['exhaustive']} inconc={agg['inconclusive'][:1]}")
            for k in tot:
                tot[k] += agg[k]
            funcs.update(agg["funcs_used"]); notes.update(agg["notes"])
            for k, v in agg["models_used"].items():
                models[k] = models.get(k, 0) + v
            for m in agg["inconclusive"]:
                inconc.append(f"{inst.name}: {m}")
            missing = [w for w in inst.required_witnesses if w not in agg["witnesses"]]
            if missing and not agg["inconclusive"]:
                inconc.append(f"{inst.name}: vacuity witnesses never reached: {missing}")
            if agg["completed"] == 0 and not agg["violations"] and not agg["inconclusive"]:
                inconc.append(f"{inst.name}: no path reached the end of the harness (vacuous)")
            # native replay of counterexamples
            confirmed_roles = set()
            for v in agg["violations"]:
                if v["role"] in confirmed_roles:
                    continue                    # one natively confirmed counterexample per role and instance is enough
                try:
                    cmd, case = inst.native(v["inputs"])
                except NotImplementedError:
                    cmd, case = None, None
                outs = {}
                if cmd:
                    for prof in ("dev", "release"):
                        outs[prof] = replay.run(cmd, case, profile=prof, timeout=getattr(inst, "native_timeout", 120))
                confirmed = bool(cmd) and inst.confirm(v, outs)
                if cmd and not confirmed and hasattr(inst, "amplify"):
                    # behaviour the language leaves unspecified (e.g. order of equal keys after an unstable sort) may need a larger
                    # instance of the same history to show up in the real build: replay the amplified history natively
                    amp = inst.amplify(v)
                    if amp is not None:
                        cmd2, case2 = amp
                        outs2 = {prof: replay.run(cmd2, case2, profile=prof, timeout=getattr(inst, "native_timeout", 120)) for prof in ("dev", "release")}
                        if inst.confirm(v, outs2):
                            confirmed, cmd, case, outs = True, cmd2, case2, outs2
                            v = dict(v, desc=v["desc"] + " [reproduced natively on the amplified history]")
                h = hashlib.sha1(json.dumps(v["inputs"], sort_keys=True, default=str).encode()).hexdigest()[:8]
                path = replay.save_case(prop, f"{inst.name}-{v['role'].replace(':', '_').replace('/', '_')[:60]}-{h}", cmd, case) if cmd else None
                if confirmed:
                    confirmed_roles.add(v["role"])
                viols.append({"role": v["role"], "desc": f"[{inst.name}] {v['desc']} inputs={json.dumps(v['inputs'], default=str)[:400]} native={json.dumps(outs)[:300]}",
                              "replay": path, "confirmed": confirmed, "instance": inst.name})
            # translator validation: concrete runs through mirsym vs the native build
            cases = inst.concrete_cases(rnd)[: inst.n_concrete if tier == "quick" else inst.n_concrete * 3]
            if cases:
                futs = [pool.submit(ex.run_concrete, mod_name, inst.name, c) for c in cases]
                cmd0 = None; batch = []
                for c in cases:
                    cmd0, cj = inst.native(c); batch.append(cj)
                nat = replay.run(cmd0, {"batch": batch}, profile=getattr(inst, "native_profile", "dev"), timeout=1200)
                nres = nat.get("results", [])
                for c, f, n in zip(cases, futs, nres + [None] * (len(cases) - len(nres))):
                    try:
                        s = f.result()
                    except Exception as exn:
                        inconc.append(f"{inst.name}: concrete run crashed in the engine: {exn!r} on {c}")
                        continue
                    if n is None:
                        inconc.append(f"{inst.name}: native batch run failed: {json.dumps(nat)[:300]}")
                        break
                    if ("panic" in s) != ("panic" in n) or ("out" in s and not inst.compare(s["out"], n)):
                        inconc.append(f"{inst.name}: engine and native build DISAGREE on concrete input {json.dumps(c)[:300]}: engine={json.dumps(s, default=str)[:300]} native={json.dumps(n)[:300]}")
                    else:
                        validated += 1
            per_inst.append({"instance": inst.name, "bounds": inst.bounds, "paths": agg["paths"], "completed": agg["completed"], "panicking_paths": agg["panics"],
                             "exhaustive": agg["exhaustive"], "queries": agg["queries"], "solver_s": round(agg["solver_s"], 1), "wall_s": agg["wall_s"],
                             "witnesses": agg["witnesses"], "violations": agg["violation_counts"]})
            samples.extend({"instance": inst.name, "inputs": s} for s in agg["samples"][:2])
    finally:
        pool.shutdown(wait=False, cancel_futures=True)
    cov = {
        "evaluations": tot["paths"], "distinct_nontrivial": tot["completed"] + tot["panics"],
        "rule": "each evaluation is one feasible execution path of the real MIR over symbolic inputs (an equivalence class of inputs, decided by z3); paths are distinct by their branch-decision sequence; non-trivial = reached the end of the harness or a panic",
        "states": max(tot["paths"], 1), "transitions": max(tot["branches"], 1), "traces_validated_against_impl": validated,
        "samples": samples[:8] or [{"note": "no completed path"}],
        "exhaustive": all(p["exhaustive"] for p in per_inst) and bool(per_inst),
        "engine": "mirsym (path-wise symbolic execution of rustc MIR, regenerated from /repo this run) + z3 " + _z3v(),
        "mir_files": {c: os.path.basename(p) for c, p in mirs.items()},
        "functions_encoded": {k: v for k, v in sorted(funcs.items()) if not k.startswith("const:")},
        "std_models_used": sorted(models), "model_notes": notes,
        "instances": per_inst, "solver_queries": tot["queries"], "solver_time_s": round(tot["solver_s"], 1), "mir_steps": tot["steps"],
        "explanation": explanation,
    }
    return {"level": level, "coverage": cov, "violations": viols, "inconclusive": inconc, "assumptions": list(assumptions)}


def _z3v():
    try:
        import z3
        return z3.get_version_string()
    except Exception:
        return "?"
