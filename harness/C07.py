"""C07 — range and length queries agree with full extraction.
E2 (mirsym) over the real Decompressor::{get_contig, reconstruct_contig, get_contig_length, get_contig_range} MIR.
The catalogue lookup and get_segment are replaced by models that return a symbolic descriptor list and the stored
bytes of each segment (same bytes for the three queries); start and end are symbolic over the whole usize range."""
import z3
from mirsym.values import *
from mirsym.values import b_and, b_or, b_not
from harness.base import Instance, run_instances

CORE = "ragc-core"


class RangeInst(Instance):
    def __init__(self, name, k, maxseg, extra, alpha, rc=True):
        Instance.__init__(self, name)
        self.k, self.maxseg, self.extra, self.alpha, self.rc = k, maxseg, extra, alpha, rc
        self.required_witnesses = ("nonempty_range", "empty_range", "multi_segment", "clamped")
        self.bounds = {"k": k, "segments": f"1..{maxseg}", "first_segment_len": f"0..{k + extra}", "later_segment_len": f"{k}..{k + extra}",
                       "bases": f"codes {alpha}", "is_rev_comp": "symbolic per segment" if rc else "false", "start,end": "all of usize x usize"}

    def setup(self, e):
        def no_contigs(e, c, a):
            return some(Int(64, 0, 1))

        def contig_desc(e, c, a):
            return some(VecObj([copy_val(d) for d in e.h["descs"]]))

        def get_segment(e, c, a):
            d = e.load(a[1])
            i = e.field(d, "SegmentDesc", "in_group_id").v
            return ok(VecObj(list(e.h["datas"][i])))
        e.stub(r"(^|::)CollectionV3::get_no_contigs$", no_contigs)
        e.stub(r"(^|::)CollectionV3::get_contig_desc$", contig_desc)
        e.stub(r"(^|::)Decompressor::get_segment$", get_segment)

    def build(self, e):
        k = self.k
        nseg = 1 + e.choose(self.maxseg, "nseg1")
        lens, datas, descs, rcs = [], [], [], []
        for i in range(nseg):
            L = e.choose(k + self.extra + 1, f"len{i}") if i == 0 else k + e.choose(self.extra + 1, f"len{i}")
            lens.append(L)
            datas.append(e.sym_bytes(f"s{i}", L, among=self.alpha))
            r = e.sym_bool(f"rc{i}") if self.rc else False
            rcs.append(r)
            descs.append(e.struct("SegmentDesc", group_id=Int(32, 0, 16 + i), in_group_id=Int(32, 0, i), is_rev_comp=r, raw_length=Int(32, 0, L)))
        e.h = {"descs": descs, "datas": datas}
        dec = e.struct("Decompressor", config=e.struct("DecompressorConfig", verbosity=Int(32, 0, 0)), archive=Opaque("archive"), collection=Opaque("collection"),
                       segment_cache=Opaque("cache"), _segment_size=Int(32, 0, 0), kmer_length=Int(32, 0, k), min_match_len=Int(32, 0, 20), archive_path=VecObj([], "String"))
        return Cell(dec), lens

    def path(self, e):
        decc, lens = self.build(e)
        name = lambda: e.str_slice(b"s")
        full = e.call_fn(CORE, "Decompressor::get_contig", [Ref(decc), name(), name()])
        e.prove(full.variant == 0, "range:full_extraction_failed", "get_contig returned Err on a well-formed descriptor list")
        fb = e.vec_items(full.f[0])
        n = len(fb)
        if len(lens) > 1:
            e.witness("multi_segment")
        ln = e.call_fn(CORE, "Decompressor::get_contig_length", [Ref(decc), name(), name()])
        e.prove(ln.variant == 0, "range:length_err", "get_contig_length returned Err")
        e.prove(e.binop("Eq", ln.f[0], Int(64, 0, n)), "range:length_mismatch", f"get_contig_length != length of full extraction ({n})")
        start = e.sym_int("start", 64); end = e.sym_int("end", 64)
        r = e.call_fn(CORE, "Decompressor::get_contig_range", [Ref(decc), name(), name(), start, end])
        e.prove(r.variant == 0, "range:range_err", "get_contig_range returned Err")
        rb = e.vec_items(r.f[0])
        # expected = full[start .. min(end, n)], empty when start >= end or start >= n
        empty = b_or(e.binop("Ge", start, end), e.binop("Ge", start, Int(64, 0, n)))
        if e.branch(empty):
            e.witness("empty_range")
            e.prove(len(rb) == 0, "range:range_mismatch", f"range should be empty but has {len(rb)} bases")
        else:
            e.witness("nonempty_range")
            s = e.concretize(start, n)
            if e.branch(e.binop("Gt", end, Int(64, 0, n))):
                e.witness("clamped"); t = n
            else:
                t = e.concretize(end, n)
            e.prove(len(rb) == t - s, "range:range_mismatch", f"range [{s},{t}) of a contig of {n} bases returned {len(rb)} bases")
            e.prove(e.eq_bytes(rb, fb[s:t]), "range:range_mismatch", f"range [{s},{t}) differs from the full extraction")
        return None

    def classify_panic(self, e, ex):
        return f"range:panic:{ex.where.split('::')[-1]}:{ex.kind}", str(ex)

    def _case(self, inp):
        nseg = 1 + inp.get("nseg1", 0)
        segs = []
        for i in range(nseg):
            segs.append({"data": inp[f"s{i}"], "rc": bool(inp.get(f"rc{i}", False))})
        return {"k": self.k, "segments": segs, "start": str(inp.get("start", 0)), "end": str(inp.get("end", 0))}

    def native(self, inp):
        return "range_query", self._case(inp)

    def concrete_path(self, e):
        decc, lens = self.build(e)
        name = lambda: e.str_slice(b"s")
        full = e.call_fn(CORE, "Decompressor::get_contig", [Ref(decc), name(), name()])
        ln = e.call_fn(CORE, "Decompressor::get_contig_length", [Ref(decc), name(), name()])
        r = e.call_fn(CORE, "Decompressor::get_contig_range", [Ref(decc), name(), name(), e.sym_int("start", 64), e.sym_int("end", 64)])
        return {"full": [x.v for x in e.vec_items(full.f[0])], "len": ln.f[0].v, "range": [x.v for x in e.vec_items(r.f[0])]}

    def concrete_cases(self, rnd):
        out = []
        k = self.k
        for _ in range(30):
            nseg = 1 + rnd.randrange(self.maxseg)
            c = {"nseg1": nseg - 1}
            tot = 0
            for i in range(nseg):
                L = rnd.randrange(k + self.extra + 1) if i == 0 else k + rnd.randrange(self.extra + 1)
                c[f"len{i}"] = L if i == 0 else L - k
                c[f"s{i}"] = [rnd.choice(self.alpha) for _ in range(L)]
                c[f"rc{i}"] = rnd.random() < 0.4 if self.rc else False
                tot += L if i == 0 else L - k
            c["start"] = rnd.choice([0, rnd.randrange(tot + 2), rnd.randrange(tot + 2)])
            c["end"] = rnd.choice([tot, rnd.randrange(tot + 3), (1 << 64) - 1, rnd.randrange(tot + 3)])
            out.append(c)
        return out

    def compare(self, s, n):
        return s["full"] == n.get("full") and s["len"] == n.get("len") and s["range"] == n.get("range")


# concrete mode uses a different path function (returns the three answers instead of asserting)
_orig_path = RangeInst.path


def _path(self, e):
    if e.concrete is not None:
        return self.concrete_path(e)
    return _orig_path(self, e)


RangeInst.path = _path

INSTANCES = {}


def _reg(i):
    INSTANCES[i.name] = i
    return i


QUICK = [_reg(RangeInst("k1", 1, 3, 2, [0, 1, 2, 3])).name, _reg(RangeInst("k2", 2, 3, 2, [0, 1, 2, 3])).name,
         _reg(RangeInst("k3_iupac", 3, 2, 2, [4, 5, 15])).name]
THOROUGH = [_reg(RangeInst("T_k1", 1, 4, 3, [0, 1, 2, 3])).name, _reg(RangeInst("T_k2", 2, 4, 3, [0, 1, 2, 3])).name,
            _reg(RangeInst("T_k3", 3, 4, 2, [0, 1, 2, 3])).name, _reg(RangeInst("T_k3_iupac", 3, 3, 3, [4, 5, 15])).name,
            _reg(RangeInst("T_k5", 5, 3, 3, [0, 1, 2, 3])).name]


def run(ctx):
    insts = [INSTANCES[n] for n in (QUICK if ctx["tier"] == "quick" else THOROUGH)]
    return run_instances("C07", "harness.C07", insts, ctx,
                         assumptions=["every descriptor's raw_length equals the decoded segment length (C02 addressing rule) and later segments have >= k bases (C10)",
                                      "catalogue lookup and get_segment are models returning the same descriptors/bytes for the three queries (reader history independence is C08)"])
