"""C06 — bounded priority queue: exactly-once, priority order, capacity bound, close. (C05 reuses the concurrent part.)
E2 (mirsym) over the real MemoryBoundedQueue MIR:
 (1) sequential specification: every operation sequence up to the bound against a multiset/priority model,
 (2) concurrent: producers/consumers as simulated threads; Mutex::lock, Condvar::wait, notify_* are scheduling
     points whose outcome is an engine choice, so every interleaving within the bound is explored; a state in which no
     thread can run is a deadlock (no spurious wake-ups, so a lost wake-up is visible)."""
import z3
from mirsym.values import *
from mirsym.values import b_and, b_or, b_not
from mirsym.sched import Sched
from harness.base import Instance, run_instances

CORE = "ragc-core"
Q = "MemoryBoundedQueue"


def new_queue(e, cap):
    return Cell(e.call_fn(CORE, f"{Q}::new", [cap if isinstance(cap, Int) else Int(64, 0, cap)]))


class Shadow:
    """Reference model: multiset of (item, size), closed flag."""
    def __init__(self, cap):
        self.items, self.closed, self.cap, self.pushed, self.pulled = [], False, cap, [], []

    def total(self, e):
        t = Int(64, 0, 0)
        for _, s in self.items:
            t = e.binop("Add", t, s)
        return t

    def take(self, e, got, role):
        """`got` was returned by a pull: it must be a queued item of maximal priority; remove it."""
        idx = None
        for i, (it, s) in enumerate(self.items):
            if e.branch(e.binop("Eq", it, got)):
                idx = i; break
        e.prove(idx is not None, "queue:phantom_item", "pull returned an item that is not queued (never pushed, or returned twice)")
        for j, (it, s) in enumerate(self.items):
            if j != idx:
                e.prove(e.binop("Ge", got, it), "queue:priority_order", "pull returned an item while a strictly higher-priority item stayed queued")
        self.items.pop(idx); self.pulled.append(got)


class SeqSpec(Instance):
    def __init__(self, name, nops, cap=4):
        Instance.__init__(self, name)
        self.nops, self.cap = nops, cap
        self.required_witnesses = ("push_ok", "pull_some", "closed_push_refused", "would_block", "drain_after_close")
        self.bounds = {"operations": f"every sequence of <= {nops} operations over push(fitting) / try_push / pull(non-blocking cases) / try_pull / close / len / current_size",
                       "capacity": cap, "sizes": "symbolic 0..capacity+1", "priorities": "symbolic 4-bit + unique id"}

    def path(self, e):
        cap = self.cap
        qc = new_queue(e, cap); q = Ref(qc)
        sh = Shadow(cap)
        n = e.choose(self.nops + 1, "nops")
        nid = 0
        for i in range(n):
            op = ["push", "try_push", "pull", "try_pull", "close", "len"][e.choose(6, f"op{i}")]
            if op in ("push", "try_push"):
                pr = e.sym_int(f"p{i}", 64, hi=15); item = e.binop("Add", e.binop("Mul", pr, Int(64, 0, 8)), Int(64, 0, nid)); nid += 1
                size = e.sym_int(f"s{i}", 64, hi=cap + 1)
                fits = e.branch(e.binop("Le", e.binop("Add", sh.total(e), size), Int(64, 0, cap)))
                if op == "push" and not fits and not sh.closed:
                    raise Infeasible()            # would block: not a sequential case
                r = e.call_fn(CORE, f"{Q}::{op}", [q, item, size])
                if sh.closed:
                    e.prove(r.variant == 1, "queue:push_after_close", f"{op} accepted an item after close"); e.witness("closed_push_refused")
                    if op == "try_push":
                        e.prove(r.f[0].variant == e.p.variant_index("TryPushError", "Closed"), "queue:push_after_close", "try_push after close did not report Closed")
                elif fits:
                    e.prove(r.variant == 0, "queue:push_refused", f"{op} refused an item that fits"); e.witness("push_ok")
                    sh.items.append((item, size)); sh.pushed.append(item)
                else:
                    e.prove(r.variant == 1 and r.f[0].variant == e.p.variant_index("TryPushError", "WouldBlock"), "queue:capacity", "try_push accepted an item beyond the capacity")
                    e.witness("would_block")
            elif op in ("pull", "try_pull"):
                if op == "pull" and not sh.items and not sh.closed:
                    raise Infeasible()            # would block
                r = e.call_fn(CORE, f"{Q}::{op}", [q])
                if not sh.items:
                    e.prove(r.variant == 0, "queue:phantom_item", f"{op} returned an item from an empty queue")
                else:
                    e.prove(r.variant == 1, "queue:lost_item", f"{op} returned None although items are queued")
                    sh.take(e, r.f[0], "seq"); e.witness("pull_some")
                    if sh.closed:
                        e.witness("drain_after_close")
            elif op == "close":
                e.call_fn(CORE, f"{Q}::close", [q]); sh.closed = True
            else:
                ln = e.call_fn(CORE, f"{Q}::len", [q]); cs = e.call_fn(CORE, f"{Q}::current_size", [q])
                e.prove(e.binop("Eq", ln, Int(64, 0, len(sh.items))), "queue:len", "len() differs from the number of queued items")
                e.prove(e.binop("Eq", cs, sh.total(e)), "queue:size_accounting", "current_size() differs from the sum of queued sizes")
                e.prove(e.binop("Le", cs, Int(64, 0, cap)), "queue:capacity", "queued bytes exceed the capacity although every item fits")
                cl = e.call_fn(CORE, f"{Q}::is_closed", [q])
                e.prove(e.binop("Eq", cl, sh.closed), "queue:closed_flag", "is_closed() wrong")
        return None

    def classify_panic(self, e, ex):
        return f"queue:panic:{ex.where.split('::')[-1]}:{ex.kind}", str(ex)

    def native(self, inp):
        ops = []
        for i in range(inp.get("nops", 0)):
            k = inp.get(f"op{i}")
            if k is None:
                break
            op = ["push", "try_push", "pull", "try_pull", "close", "len"][k]
            ops.append([op, inp.get(f"p{i}", 0), inp.get(f"s{i}", 0)])
        return "queue_seq", {"cap": self.cap, "ops": ops}


class Concurrent(Instance):
    """p producers (each pushes its items, then finishes), c consumers (pull until None), main closes when the producers are done."""
    def __init__(self, name, producers, consumers, caps, sizes, expect_fit=True, role_prefix="queue", early_close=False):
        Instance.__init__(self, name)
        self.producers, self.consumers, self.caps, self.sizes, self.expect_fit, self.rp = producers, consumers, caps, sizes, expect_fit, role_prefix
        self.early_close = early_close
        self.required_witnesses = ("all_done", "producer_waited", "consumer_waited")
        self.max_wall = 7200
        self.bounds = {"producers": producers, "consumers": consumers, "capacity": f"one of {caps}", "item_sizes": f"symbolic over {sizes}" + (" (each item fits the capacity)" if expect_fit else " (may exceed the capacity)"),
                       "interleavings": "every schedule of lock/wait/notify points; which waiter a notify_one wakes is a free choice; no spurious wake-ups"}

    def path(self, e):
        cap = self.caps[e.choose(len(self.caps), "cap_i")]
        e.inputs["cap"] = cap
        qc = new_queue(e, cap); q = Ref(qc)
        sh = Shadow(cap)
        s = Sched(e); e.sched = s
        allitems = []
        for pi, items in enumerate(self.producers):
            for k in range(items):
                size = e.sym_int(f"s{pi}_{k}", 64, among=self.sizes)
                if self.expect_fit:
                    e.assume(e.binop("Le", size, Int(64, 0, cap)))
                allitems.append((pi, k, size))

        def producer(pi):
            def run():
                for (pj, k, size) in allitems:
                    if pj != pi:
                        continue
                    item = Int(64, 0, (3 - k) * 8 + pi)          # earlier items have higher priority; ids unique
                    r = e.call_fn(CORE, f"{Q}::push", [q, item, size])
                    if r.variant == 1:
                        e.prove(sh.closed, f"{self.rp}:push_refused", "push returned Err although the queue was not closed")
                        e.witness("push_refused_by_close")
                        continue
                    e.prove(not sh.closed, "queue:push_after_close", "push returned Ok and queued an item after close")
                    sh.items.append((item, size)); sh.pushed.append(item)
                    if self.expect_fit:
                        e.prove(e.binop("Le", sh.total(e), Int(64, 0, cap)), "queue:capacity", "queued bytes exceed the capacity although every item fits")
            return run

        def consumer(ci):
            def run():
                while True:
                    r = e.call_fn(CORE, f"{Q}::pull", [q])
                    if r.variant == 0:
                        e.prove(sh.closed and not sh.items, "queue:early_eos", "pull reported end-of-stream before close or while items were queued")
                        return
                    sh.take(e, r.f[0], "conc")
            return run
        cons = [s.spawn(consumer(i), f"cons{i}") for i in range(self.consumers)]
        prods = [s.spawn(producer(i), f"prod{i}") for i in range(len(self.producers))]
        if not self.early_close:
            s.join_all(prods)
        e.call_fn(CORE, f"{Q}::close", [q]); sh.closed = True
        s.join_all()
        e.witness("all_done")
        for x in s.log:
            if len(x) == 2 and x[1] == "wait":
                e.witness("producer_waited" if x[0].startswith("prod") else "consumer_waited")
        if self.consumers:
            e.prove(len(sh.pulled) == len(sh.pushed), "queue:lost_item", f"{len(sh.pushed)} items pushed, {len(sh.pulled)} pulled after close+drain")
        e.inputs["schedule"] = [x[1] for x in s.log if x[0] == "run"]
        return None

    def classify_panic(self, e, ex):
        return f"{self.rp}:panic:{ex.where.split('::')[-1]}:{ex.kind}", str(ex)

    def native(self, inp):
        sizes = [[inp.get(f"s{pi}_{k}", 0) for k in range(n)] for pi, n in enumerate(self.producers)]
        return "queue_conc", {"cap": inp.get("cap", self.caps[0]), "sizes": sizes, "consumers": self.consumers, "early_close": self.early_close}

    def confirm(self, viol, outs):
        return any(("panic" in o or "crash" in o or o.get("ok") is False or o.get("timeout")) for o in outs.values())


INSTANCES = {}


def _reg(i):
    INSTANCES[i.name] = i
    return i


QUICK = [_reg(SeqSpec("seq4", 4)).name, _reg(Concurrent("p1c1", [2], 1, [2], [1, 2])).name, _reg(Concurrent("p1c2", [1], 2, [2], [1, 2])).name,
         _reg(Concurrent("p2c1", [1, 1], 1, [2], [1, 2])).name]
INSTANCES["p1c2"].required_witnesses = ("all_done", "consumer_waited")
QUICK.append(_reg(Concurrent("close_p1c0", [2], 0, [2, 3], [1, 2], early_close=True)).name)
INSTANCES["close_p1c0"].required_witnesses = ("all_done", "producer_waited", "push_refused_by_close")
QUICK.append(_reg(Concurrent("close_p1c1", [2], 1, [2], [1, 2], early_close=True)).name)
INSTANCES["close_p1c1"].required_witnesses = ("all_done", "push_refused_by_close")
THOROUGH = [_reg(SeqSpec("T_seq5", 5)).name, _reg(Concurrent("T_p1c2", [2], 2, [2], [1, 2])).name, _reg(Concurrent("T_p2c2", [1, 1], 2, [2], [1, 2])).name,
            _reg(Concurrent("T_p2c1", [2, 1], 1, [3], [1, 2, 3])).name]


def run(ctx):
    insts = [INSTANCES[n] for n in (QUICK if ctx["tier"] == "quick" else THOROUGH)]
    return run_instances("C06", "harness.C06", insts, ctx,
                         assumptions=["std Mutex/Condvar are modelled: mutual exclusion, wait = release+block+re-acquire, notify_one wakes an arbitrary waiter, no spurious wake-ups, no fairness",
                                      "every access to the queue state happens under the mutex (the operations' effects are atomic at their critical section)",
                                      "memory-model effects below Mutex are trusted to std"])
