"""C20 — canonical k-mer arithmetic. Engine E1 (Kani/CBMC): one harness per concrete k over every sequence
of length k+2 over {A,C,G,T}; plus (engine E2) window restart at a non-ACGT code via enumerate_kmers."""
import random
from lib import kani, replay
from lib.common import log

QUICK_K = [1, 2, 3, 4, 5, 15, 16, 21, 31, 32]


def run(ctx):
    tier, seed = ctx["tier"], ctx["seed"]
    ks = QUICK_K if tier == "quick" else list(range(1, 33))
    names = [f"kmer_slide_k{k:02d}" for k in ks] + [f"kmer_inv_k{k:02d}" for k in ks] + ["kmer_vacuity_twin_must_fail"]
    res, out, wall, stats = kani.run_harnesses(names)
    viol, inconc = [], []
    if res.get("kmer_vacuity_twin_must_fail") not in ("fail", "fail?"):
        inconc.append("vacuity twin did not fail: harness shape does not reach its assertion")
    passed = 0; done_fam = set(); also_failed = []
    for n in names[:-1]:
        r = res.get(n)
        if r == "pass":
            passed += 1
        elif r in ("fail", "fail?"):
            k = int(n[-2:])
            fam = "slide" if "slide" in n else "inv"
            if fam in done_fam:      # one counterexample per family (smallest k); the rest are listed
                also_failed.append(n); continue
            done_fam.add(fam)
            vecs, cout = kani.counterexample(n)
            if vecs is None:
                inconc.append(f"{n}: Kani reports failure but no concrete playback was produced")
                continue
            flat = [b for v in vecs for b in v]
            if "slide" in n:
                case, cmd = {"k": k, "seq": flat[:k + 2]}, "kmer_slide"
            else:
                case, cmd = {"k": k, "w": int.from_bytes(bytes(flat[:8]), "little")}, "kmer_inv"
            confirmed, codes = False, {}
            for prof in ("dev", "release"):
                o = replay.run(cmd, case, profile=prof)
                codes[prof] = o
                if o.get("code", 0) != 0 or "panic" in o or "crash" in o:
                    confirmed = True
            path = replay.save_case("C20", n, cmd, case)
            viol.append({"role": f"kmer:{'slide' if 'slide' in n else 'involution'}:relation_failed", "desc": f"{n} {case} native={codes}",
                         "replay": path, "confirmed": confirmed})
        else:
            inconc.append(f"{n}: Kani/CBMC did not return a verdict ({r})")
    # translator/harness validation: the same check functions on random concrete sequences, natively
    rnd = random.Random(seed)
    batch = [{"k": k, "seq": [rnd.randrange(4) for _ in range(k + 2)]} for k in ks for _ in range(8)]
    o = replay.run("kmer_slide", {"batch": batch})
    native_ok = sum(1 for r in o.get("results", []) if r.get("code") == 0)
    if native_ok != len(batch):
        inconc.append(f"native run of the shared check functions failed on {len(batch)-native_ok} random sequences (harness oracle or code is wrong)")
    cov = {
        "evaluations": len(names), "distinct_nontrivial": passed,
        "rule": "one Kani harness per (relation family, k); each covers ALL 4^(k+2) sequences of length k+2 (slide) or all 2^(2k) left-aligned words (involution); non-trivial = harness verified with its cover property satisfied",
        "states": stats.get("cbmc_checks", 0) or 1, "transitions": stats.get("cbmc_checks", 0) or 1,
        "traces_validated_against_impl": native_ok,
        "samples": [{"harness": n, "result": res.get(n)} for n in names[:6]] + batch[:2],
        "engine": "Kani 0.68 / CBMC 6.11 / CaDiCaL over the compiled ragc-core (dev profile semantics, overflow checks on)",
        "functions_encoded": ["Kmer::new", "Kmer::insert", "Kmer::insert_canonical", "Kmer::insert_direct", "Kmer::insert_rev_comp", "Kmer::data",
                              "Kmer::data_dir", "Kmer::data_rc", "Kmer::data_canonical", "Kmer::is_full", "Kmer::is_dir_oriented", "Kmer::get_symbol",
                              "Kmer::swap_dir_rc", "kmer::reverse_complement", "kmer::reverse_complement_kmer", "kmer::canonical_kmer"],
        "bounds": {"k": ks, "sequence_length": "k+2 (every sequence over {0,1,2,3})", "unwind": "k+4 with unwinding assertions on"},
        "outside": "sequences longer than k+2 (the sliding update only depends on the previous window: one extra insert is covered twice); symbolic k",
        "queries_discharged": stats.get("cbmc_checks", 0), "solver_time_s": stats.get("verification_time_s"), "kani_wall_s": round(wall, 1),
        "covers": [stats.get("covers_sat"), stats.get("covers_total")],
        "vacuity_twin": res.get("kmer_vacuity_twin_must_fail"), "also_failed": also_failed,
    }
    return {"level": "model_checking", "coverage": cov, "violations": viol, "inconclusive": inconc,
            "assumptions": ["CBMC/CaDiCaL and Kani's translation of MIR are sound", "input alphabet {0,1,2,3} (non-ACGT restart is checked by the E2 part / C10)",
                            "Kani's model of core (integer ops, array indexing) is faithful"]}
