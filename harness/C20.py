"""C20 — canonical k-mer arithmetic. Engine E1 (Kani/CBMC): one harness per concrete k over every sequence
of length k+2 over {A,C,G,T}; plus (engine E2) window restart at a non-ACGT code via enumerate_kmers."""
import random
from lib import kani, replay
from lib.common import log

QUICK_K = [1, 2, 3, 4, 5, 15, 16, 21, 31, 32]


def run(ctx):
    tier, seed = ctx["tier"], ctx["seed"]
    ks = QUICK_K if tier == "quick" else list(range(1, 33))
    names = [f"kmer_slide_k{k:02d}" for k in ks] + [f"kmer_inv_k{k:02d}" for k in ks] + [f"kmer_restart_k{k:02d}" for k in ks] + ["kmer_vacuity_twin_must_fail"]
    res, out, wall, stats = kani.run_harnesses(names)
    viol, inconc = [], []
    if res.get("kmer_vacuity_twin_must_fail") not in ("fail", "fail?"):
        inconc.append("vacuity twin did not fail: harness shape does not reach its assertion")
    passed = 0; done_fam = set(); also_failed = []
    for n in names[:-1]:
        r = res.get(n)
        if r == "pass":
            passed += 1
        elif r in ("fail", "fail?"):
            k = int(n[-2:])
            fam = "slide" if "slide" in n else ("restart" if "restart" in n else "inv")
            if fam in done_fam:      # one counterexample per family (smallest k); the rest are listed
                also_failed.append(n); continue
            done_fam.add(fam)
            vecs, cout = kani.counterexample(n)
            if vecs is None:
                inconc.append(f"{n}: Kani reports failure but no concrete playback was produced")
                continue
            flat = [b for v in vecs for b in v]
            if "slide" in n:
                case, cmd = {"k": k, "seq": flat[:k + 2]}, "kmer_slide"
            elif "restart" in n:
                # kani::any() order in the harness: prefix [k+2 bytes], window [k bytes], p (usize)
                case, cmd = {"k": k, "prefix": flat[:k + 2], "w": flat[k + 2:2 * k + 2], "p": int.from_bytes(bytes(flat[2 * k + 2:2 * k + 10]), "little")}, "kmer_restart"
            else:
                case, cmd = {"k": k, "w": int.from_bytes(bytes(flat[:8]), "little")}, "kmer_inv"
            confirmed, codes = False, {}
            for prof in ("dev", "release"):
                o = replay.run(cmd, case, profile=prof)
                codes[prof] = o
                if o.get("code", 0) != 0 or "panic" in o or "crash" in o:
                    confirmed = True
            path = replay.save_case("C20", n, cmd, case)
            viol.append({"role": f"kmer:{'slide' if 'slide' in n else ('restart' if 'restart' in n else 'involution')}:relation_failed", "desc": f"{n} {case} native={codes}",
                         "replay": path, "confirmed": confirmed})
        else:
            inconc.append(f"{n}: Kani/CBMC did not return a verdict ({r})")
    # translator/harness validation: the same check functions on random concrete sequences, natively
    rnd = random.Random(seed)
    batch = [{"k": k, "seq": [rnd.randrange(4) for _ in range(k + 2)]} for k in ks for _ in range(8)]
    o = replay.run("kmer_slide", {"batch": batch})
    native_ok = sum(1 for r in o.get("results", []) if r.get("code") == 0)
    if native_ok != len(batch):
        inconc.append(f"native run of the shared check functions failed on {len(batch)-native_ok} random sequences (harness oracle or code is wrong)")
    cov = {
        "evaluations": len(names), "distinct_nontrivial": passed,
        "rule": "one Kani harness per (relation family, k); each covers ALL 4^(k+2) sequences of length k+2 (slide) or all 2^(2k) left-aligned words (involution); non-trivial = harness verified with its cover property satisfied",
        "states": stats.get("cbmc_checks", 0) or 1, "transitions": stats.get("cbmc_checks", 0) or 1,
        "traces_validated_against_impl": native_ok,
        "samples": [{"harness": n, "result": res.get(n)} for n in names[:6]] + batch[:2],
        "engine": "Kani 0.68 / CBMC 6.11 / CaDiCaL over the compiled ragc-core (dev profile semantics, overflow checks on)",
        "functions_encoded": ["Kmer::new", "Kmer::insert", "Kmer::insert_canonical", "Kmer::insert_direct", "Kmer::insert_rev_comp", "Kmer::data",
                              "Kmer::data_dir", "Kmer::data_rc", "Kmer::data_canonical", "Kmer::is_full", "Kmer::is_dir_oriented", "Kmer::get_symbol",
                              "Kmer::swap_dir_rc", "kmer::reverse_complement", "kmer::reverse_complement_kmer", "kmer::canonical_kmer"],
        "bounds": {"k": ks, "sequence_length": "k+2 (every sequence over {0,1,2,3})", "restart": "every prefix of 0..k+2 symbols, reset, every window of k symbols, all three modes", "unwind": "k+4 with unwinding assertions on"},
        "outside": "sequences longer than k+2 (the sliding update only depends on the previous window: one extra insert is covered twice); symbolic k",
        "queries_discharged": stats.get("cbmc_checks", 0), "solver_time_s": stats.get("verification_time_s"), "kani_wall_s": round(wall, 1),
        "covers": [stats.get("covers_sat"), stats.get("covers_total")],
        "vacuity_twin": res.get("kmer_vacuity_twin_must_fail"), "also_failed": also_failed,
    }
    # E2 part: window restart at non-ACGT symbols through the real enumerate_kmers (symbolic contigs with ambiguity codes)
    from harness import C20e
    r2 = C20e.run(ctx)
    c2 = r2["coverage"]
    viol += r2["violations"]; inconc += r2["inconclusive"]
    cov["evaluations"] += c2["evaluations"]; cov["distinct_nontrivial"] += c2["distinct_nontrivial"]
    cov["traces_validated_against_impl"] += c2["traces_validated_against_impl"]
    cov["rule"] += "; E2 part: " + c2["rule"]
    cov["samples"] += c2["samples"][:3]
    cov["e2_restart_part"] = {k: c2[k] for k in ("engine", "mir_files", "functions_encoded", "std_models_used", "instances", "solver_queries", "solver_time_s", "exhaustive") if k in c2}
    cov["functions_encoded"] = cov["functions_encoded"] + ["Kmer::reset", "Kmer::get_cur_size", "kmer_extract::enumerate_kmers (E2)"]
    return {"level": "model_checking", "coverage": cov, "violations": viol, "inconclusive": inconc,
            "assumptions": ["CBMC/CaDiCaL and Kani's translation of MIR are sound", "Kani harnesses: input alphabet {0,1,2,3}; the restart harness models a non-ACGT symbol by Kmer::reset() after an arbitrary prefix (what enumerate_kmers and the segmenter do), the E2 part runs the real enumerate_kmers on contigs with codes 4 and 15",
                            "Kani's model of core (integer ops, array indexing) is faithful"]}
