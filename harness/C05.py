"""C05 — the compression pipeline always terminates (queue-protocol level).
E2 (mirsym) with the thread scheduler over the real MemoryBoundedQueue push/pull/close MIR: one or two producers pushing
items of symbolic size (including larger than the whole capacity) and then the close, N consumers pulling until
end-of-stream (the shape of push...finalize with the workers as the queue's environment). No reachable state in which
every unfinished thread is blocked; every thread finishes. worker_thread / barrier rounds are outside."""
from harness.base import run_instances
from harness.C06 import Concurrent

INSTANCES = {}


def _reg(i):
    INSTANCES[i.name] = i
    return i


def T(name, producers, consumers, caps, sizes, **kw):
    i = Concurrent(name, producers, consumers, caps, sizes, expect_fit=False, role_prefix="term", **kw)
    i.required_witnesses = ("all_done",)
    return _reg(i)


QUICK = [T("over_p1c1", [2], 1, [2], [1, 2, 3]).name, T("over_p1c2", [1], 2, [1, 2], [1, 2, 3]).name, T("mixed_p1c1", [3], 1, [3], [1, 2]).name,
         T("over_p2c1", [1, 1], 1, [2], [1, 3]).name,
         # zero-size items are what the pipeline's sync tokens are: an over-sized contig queued behind them must still be admitted
         T("tokens_p1c1", [3], 1, [2], [0, 3]).name]
THOROUGH = [T("T_over_p1c2", [2], 2, [2], [1, 2, 3]).name, T("T_over_p1c1", [3], 1, [2, 3], [1, 2, 3, 4]).name, T("T_over_p2c2", [1, 1], 2, [2], [1, 3]).name,
            T("T_over_p1c3", [1], 3, [2], [1, 3]).name, T("T_tokens_p1c2", [2], 2, [1], [0, 2]).name, T("T_tokens_p2c1", [2, 1], 1, [2], [0, 3]).name]


def run(ctx):
    insts = [INSTANCES[n] for n in (QUICK if ctx["tier"] == "quick" else THOROUGH)]
    return run_instances("C05", "harness.C05", insts, ctx,
                         assumptions=["the workers are represented by consumers that pull until end-of-stream; worker_thread, the barrier rounds and drain/sync_and_flush polling are outside the claim",
                                      "std Mutex/Condvar model as in C06 (no spurious wake-ups, no fairness assumption needed: every enabled choice is explored)"])
