"""C05 — the compression pipeline always terminates (queue-protocol level + whole-pipeline level, see the end of this file).
E2 (mirsym) with the thread scheduler over the real MemoryBoundedQueue push/pull/close MIR: one or two producers pushing
items of symbolic size (including larger than the whole capacity) and then the close, N consumers pulling until
end-of-stream (the shape of push...finalize with the workers as the queue's environment). No reachable state in which
every unfinished thread is blocked; every thread finishes. worker_thread / barrier rounds are outside."""
from harness.base import run_instances
from harness.C06 import Concurrent

INSTANCES = {}


def _reg(i):
    INSTANCES[i.name] = i
    return i


def T(name, producers, consumers, caps, sizes, **kw):
    i = Concurrent(name, producers, consumers, caps, sizes, expect_fit=False, role_prefix="term", **kw)
    i.required_witnesses = ("all_done",)
    return _reg(i)


QUICK = [T("over_p1c1", [2], 1, [2], [1, 2, 3]).name, T("over_p1c2", [1], 2, [1, 2], [1, 2, 3]).name, T("mixed_p1c1", [3], 1, [3], [1, 2]).name,
         T("over_p2c1", [1, 1], 1, [2], [1, 3]).name,
         # zero-size items are what the pipeline's sync tokens are: an over-sized contig queued behind them must still be admitted
         T("tokens_p1c1", [3], 1, [2], [0, 3]).name]
THOROUGH = [T("T_over_p1c2", [2], 2, [2], [1, 3]).name, T("T_over_p1c1", [3], 1, [2, 3], [1, 2, 3, 4]).name, T("T_over_p2c2", [1, 1], 2, [2], [3]).name,
            T("T_over_p1c3", [1], 3, [2], [1, 3]).name, "tokens_p1c1"]


def run(ctx):
    insts = [INSTANCES[n] for n in (QUICK if ctx["tier"] == "quick" else THOROUGH)]
    return run_instances("C05", "harness.C05", insts, ctx,
                         assumptions=["queue-level instances: the workers are represented by consumers that pull until end-of-stream",
                                      "pipeline-level instances (pipe_*): the real worker_thread, barrier rounds, sync tokens, drain/sync_and_flush polling and finalize run on concrete small inputs; schedules are bounded by the stated preemption bound; thread::sleep in a polling loop hands the processor to another runnable thread, and a poller that can never be released is reported as a livelock",
                                      "single-file (concatenated) mode uses release-profile integer semantics (the dev profile panics on the sync-token priority: known finding F7 under C18)",
                                      "std Mutex/Condvar model as in C06 (no spurious wake-ups, no fairness assumption needed: every enabled choice is explored)"])


# ---------------------------------------------------------------------------------------------------------------
# Pipeline level: the real constructor + worker_thread x N + push / drain / sync_and_flush / finalize under every schedule within
# the preemption bound: no deadlock, no livelock in the polling loops, every worker leaves every round and exits, finalize
# returns Ok and the archive holds every pushed contig. (harness/pipe.py)
from mirsym.values import Int as _Int
from harness.pipe import Pipeline, SPL, TWO, THREE


def PL(name, threads, samples, **kw):
    i = Pipeline(name, threads, samples, splitters=SPL, view="term", **kw)
    i.required_witnesses = ("finalized", "extracted") + (("drained",) if i.driver != "api" and samples else ())
    return _reg(i)


_P2 = _Int(64, 0, 2)
QUICK += [PL("pipe_api_t1_smallq", 1, TWO, preempt=1, qcap=8).name,              # every contig but one is larger than the whole queue
          PL("pipe_api_t2", 2, TWO, preempt=1, cross=True).name,
          PL("pipe_multi_t2", 2, TWO, preempt=0, driver="multi", qcap=20).name,
          PL("pipe_single_t2", 2, THREE, preempt=0, driver="single", pack_size=_P2, cross=True).name,
          # sync rounds with nothing to flush: finalize right after construction, and sync_and_flush followed directly by finalize
          PL("pipe_empty_t2", 2, [], preempt=1).name, PL("pipe_multi_one_sample_t2", 2, TWO[:1], preempt=0, driver="multi").name]
THOROUGH += [PL("T_pipe_multi_t2_three", 2, THREE, preempt=0, driver="multi", qcap=20).name, PL("T_pipe_api_t3", 3, TWO, preempt=0).name, "pipe_api_t1_smallq", "pipe_api_t2", "pipe_multi_t2", "pipe_single_t2", "pipe_empty_t2", "pipe_multi_one_sample_t2",
             PL("T_pipe_single_t2_p1", 2, THREE, preempt=1, driver="single", pack_size=_P2).name, 
             PL("T_pipe_api_t1_p2", 1, TWO, preempt=2, qcap=8).name]
