"""C14 — a partially written archive is rejected cleanly.
E2 (mirsym): an archive file F is produced by the real Archive writer (params + collection-* + one segment stream,
symbolic part bytes, then close and Drop as in the real lifecycle); for EVERY strict prefix length n the real
Archive::open + Decompressor::open run on the truncated file. Must be Err: no panic, no allocation unbounded by the
file size, no handle."""
import z3
from mirsym.values import *
from mirsym.values import b_and, b_or, b_not
from harness.base import Instance, run_instances

COMMON, CORE = "ragc-common", "ragc-core"
PATH = b"/sym/archive.agc"


class Trunc(Instance):
    crates = ("ragc-core", "ragc-common")

    def __init__(self, name, sym_stream, parts, params_len=16):
        Instance.__init__(self, name)
        self.sym_stream, self.parts, self.params_len = sym_stream, parts, params_len
        self.required_witnesses = ("rejected", "full_file_accepted")
        self.bounds = {"archive": f"streams params({params_len} B), collection-samples/-contigs/-details, x0d; part lengths {parts}; bytes of stream '{sym_stream}' symbolic (all values), others concrete",
                       "truncation": "every strict prefix length 0..|F|-1, plus the whole file (must be accepted: vacuity witness)"}

    def setup(self, e):
        e.stub(r"(^|::)CollectionV3::load_batch_sample_names$", lambda e_, c, a: ok(UNIT))

    def write_file(self, e):
        arc = Cell(e.call_fn(COMMON, "Archive::new_writer", [])); ar = Ref(arc)
        r = e.call_fn(COMMON, "Archive::open", [ar, e.str_slice(PATH)]); assert r.variant == 0
        spec = [(b"file_type_info", 3), (b"params", self.params_len), (b"collection-samples", self.parts[0]), (b"collection-contigs", self.parts[1]),
                (b"collection-details", self.parts[2]), (b"x0d", self.parts[3])]
        import random
        rnd = random.Random(7)
        for nm, L in spec:
            sid = e.call_fn(COMMON, "Archive::register_stream", [ar, e.str_slice(nm)])
            if nm.decode() == self.sym_stream:
                data = e.sym_bytes("data", L)
            else:
                data = [Int(8, 0, rnd.randrange(256)) for _ in range(L)]
            meta = Int(64, 0, 0 if nm == b"params" else L + 3)
            e.call_fn(COMMON, "Archive::add_part_buffered", [ar, sid, VecObj(list(data)), meta])
        r = e.call_fn(COMMON, "Archive::flush_buffers", [ar]); assert r.variant == 0
        r = e.call_fn(COMMON, "Archive::close", [ar]); assert r.variant == 0
        e.call_fn(COMMON, "<Archive as Drop>::drop", [ar])          # the writer is dropped after finalize
        return e.fs.files[PATH]

    def path(self, e):
        fd = self.write_file(e)
        full = list(fd.data)
        N = len(full)
        n = e.choose(N + 1, "n")
        e.inputs["file"] = full
        fd.data = full[:n]
        e.alloc_limit = max(n, 8)
        cfg = e.struct("DecompressorConfig", verbosity=Int(32, 0, 0))
        r = e.call_fn(CORE, "Decompressor::open", [e.str_slice(PATH), cfg])
        if n == N:
            e.prove(r.variant == 0, "trunc:complete_file_rejected", "the complete archive was rejected by open")
            e.witness("full_file_accepted")
        else:
            e.prove(r.variant == 1, "trunc:prefix_accepted", f"open returned a handle for the {n}-byte prefix of a {N}-byte archive")
            e.witness("rejected")
        return {"ok": r.variant == 0}

    def classify_panic(self, e, ex):
        if ex.kind == "alloc_unbounded":
            return "trunc:alloc_unbounded", str(ex)
        return f"trunc:panic:{ex.where.split('::')[-1]}:{ex.kind}", str(ex)

    def native(self, inp):
        return "open_prefix", {"file": inp["file"], "n": inp["n"]}

    def confirm(self, viol, outs):
        return any(("panic" in o or "crash" in o or o.get("opened") is True) for o in outs.values()) if viol["inputs"]["n"] < len(viol["inputs"]["file"]) else \
            any(("panic" in o or "crash" in o or o.get("opened") is False) for o in outs.values())

    def concrete_cases(self, rnd):
        return []


INSTANCES = {}


def _reg(i):
    INSTANCES[i.name] = i
    return i


QUICK = [_reg(Trunc("sym_details", "collection-details", (4, 4, 9, 5))).name, _reg(Trunc("sym_x0d", "x0d", (3, 3, 3, 10))).name]
THOROUGH = [_reg(Trunc("T_sym_details", "collection-details", (6, 6, 12, 8))).name, _reg(Trunc("T_sym_x0d", "x0d", (5, 4, 6, 14))).name,
            _reg(Trunc("T_sym_params", "params", (4, 4, 4, 4), params_len=20)).name, _reg(Trunc("T_sym_samples", "collection-samples", (12, 4, 4, 4))).name]


def run(ctx):
    insts = [INSTANCES[n] for n in (QUICK if ctx["tier"] == "quick" else THOROUGH)]
    return run_instances("C14", "harness.C14", insts, ctx,
                         assumptions=["prefixes are exactly the reachable crash states (the file is written front to back in one pass)",
                                      "load_batch_sample_names (ZSTD decode of the sample table) is not executed: a handle returned by Decompressor::open up to that call counts as accepted",
                                      "an allocation larger than the file size is reported as unbounded"])


# ---------------------------------------------------------------------------------------------------------------
# Prefixes of an archive written by the REAL pipeline (harness/pipe.py): real params / collection / segment streams and footer, and the
# real load_batch_sample_names (no stub): every strict prefix must be refused by Decompressor::open, the whole file accepted.
from harness.pipe import Pipeline as _Pipeline, SPL as _SPL, TWO as _TWO, PATH as _PPATH


class PipeTrunc(Instance):
    crates = ("ragc-core", "ragc-common")

    def __init__(self, name, zstd):
        Instance.__init__(self, name)
        self.writer = _Pipeline(name + "_writer", 1, _TWO, splitters=_SPL, preempt=0, driver="api", zstd=zstd)
        self.required_witnesses = ("rejected", "full_file_accepted")
        self.n_concrete = 0
        self.bounds = {"archive": f"written in-engine by the real pipeline (2 samples, 3 contigs, {zstd} codec)", "truncation": "every strict prefix length 0..|F|-1, plus the whole file"}

    def path(self, e):
        c = self.__dict__.setdefault("_arc", {})
        if "data" not in c:
            r = self.writer.run_pipeline(e, sched=False)
            if r.variant != 0:
                raise Unsupported("writer failed")
            e.sched.shutdown(); e.sched = None
            c["data"] = [x.v for x in e.fs.files[_PPATH].data]; c["tabs"] = (e.h.get("zstd_table", []), e.h.get("zstd_hash_table", {}))
        from mirsym import models_io
        e.fs = models_io.FS(); e.sched = None
        e.h["zstd_table"], e.h["zstd_hash_table"] = c["tabs"]
        full = c["data"]; N = len(full)
        n = e.choose(N + 1, "n")
        e.inputs["file"] = full
        fd = models_io.FileData(); fd.data[:] = [Int(8, 0, b) for b in full[:n]]
        e.fs.files[PATH] = fd
        e.alloc_limit = max(n, 8)
        cfg = e.struct("DecompressorConfig", verbosity=Int(32, 0, 0))
        r = e.call_fn(CORE, "Decompressor::open", [e.str_slice(PATH), cfg])
        if n == N:
            e.prove(r.variant == 0, "trunc:complete_file_rejected", "the complete archive was rejected by open")
            e.witness("full_file_accepted")
        else:
            e.prove(r.variant == 1, "trunc:prefix_accepted", f"open returned a handle for the {n}-byte prefix of a {N}-byte archive")
            e.witness("rejected")
        return None

    def classify_panic(self, e, ex):
        if ex.kind == "alloc_unbounded":
            return "trunc:alloc_unbounded", str(ex)
        return f"trunc:panic:{ex.where.split('::')[-1]}:{ex.kind}", str(ex)

    def native(self, inp):
        return "open_prefix", {"file": inp["file"], "n": inp["n"]}

    def confirm(self, viol, outs):
        return any(("panic" in o or "crash" in o or o.get("opened") is True) for o in outs.values()) if viol["inputs"]["n"] < len(viol["inputs"]["file"]) else \
            any(("panic" in o or "crash" in o or o.get("opened") is False) for o in outs.values())


QUICK.append(_reg(PipeTrunc("pipe_prefixes", "token")).name)
THOROUGH += ["pipe_prefixes", _reg(PipeTrunc("T_pipe_prefixes_store", "store")).name]
