"""C03 — the sample/contig catalogue is preserved exactly.
E2 (mirsym) over the real CollectionV3 name and descriptor (de)serialisers and the batch store/load path
(through the real Archive over the symbolic file system, ZSTD = abstract lossless codec stub)."""
import z3
from mirsym.values import *
from mirsym.values import b_and, b_or, b_not
from mirsym.models_coll import MapObj
from harness.base import Instance, run_instances

COMMON = "ragc-common"
PATH = b"/sym/coll.agc"


def S(items):
    return VecObj(list(items), "String")


def mk_collection(e, samples, segment_size=1000, kmer=21):
    """samples: [(name items, [(contig name items, [SegmentDesc])])] -> Cell(CollectionV3)"""
    sd = []
    ids = MapObj()
    for i, (nm, contigs) in enumerate(samples):
        cs = [e.struct("ContigDesc", name=S(cn), segments=VecObj(list(segs))) for cn, segs in contigs]
        sd.append(e.struct("SampleDesc", name=S(nm), contigs=VecObj(cs)))
        ids.items.append([S(nm), Int(64, 0, i)])
    z = lambda: Int(64, 0, 0)
    c = e.struct("CollectionV3", sample_desc=VecObj(sd), sample_ids=ids, collection_samples_id=none(), collection_contigs_id=none(),
                 collection_details_id=none(), batch_size=Int(64, 0, 50), segment_size=Int(32, 0, segment_size) if isinstance(segment_size, int) else segment_size,
                 kmer_length=Int(32, 0, kmer) if isinstance(kmer, int) else kmer, prev_sample_name=S([]), placing_sample_name=S([]), placing_sample_id=z(),
                 no_samples_in_last_batch=z(), samples_loaded=z(), in_group_ids=VecObj([]))
    return Cell(c)


def sample_descs(e, cc):
    return e.field(cc.v, "CollectionV3", "sample_desc").e


def same_str(e, a, b):
    x, y = e.vec_items(a), e.vec_items(b)
    return len(x) == len(y) and e.eq_bytes(x, y)


class Names(Instance):
    crates = ("ragc-common",)

    def __init__(self, name, ncontigs, maxlen, alpha, long_base=None):
        Instance.__init__(self, name)
        self.nc, self.maxlen, self.alpha, self.long_base = ncontigs, maxlen, alpha, long_base
        self.required_witnesses = ("delta_coded",)
        self.bounds = {"contigs": f"2..{ncontigs} consecutive names of one sample",
                       "names": (f"every string of length 0..{maxlen} over {[chr(c) for c in alpha]}" if long_base is None else
                                 f"length {long_base}..{long_base + 4}: run of 'A' with up to 2 symbolic positions over {[chr(c) for c in alpha]} and one optional space")}

    def gen_name(self, e, i):
        if self.long_base is None:
            n = e.choose(self.maxlen + 1, f"n{i}")
            return e.sym_bytes(f"name{i}", n, among=self.alpha)
        n = self.long_base + (e.choose(5, "nlen") if i == 0 else e.inputs["nlen"])
        p1 = e.choose(3, f"p1_{i}"); p2 = e.choose(3, f"p2_{i}")
        pos1 = [0, 99, n - 1][p1]; pos2 = [1, 100, 101][p2]
        v = e.sym_bytes(f"v{i}", 2, among=self.alpha)
        items = [Int(8, 0, ord("A")) for _ in range(n)]
        items[min(pos1, n - 1)] = v[0]; items[min(pos2, n - 1)] = v[1]
        e.inputs[f"name{i}"] = items
        return items

    def path(self, e):
        nc = 2 + e.choose(self.nc - 1, "nc2")
        names = [self.gen_name(e, i) for i in range(nc)]
        src = mk_collection(e, [([Int(8, 0, ord("s"))], [(nm, []) for nm in names])])
        data = e.call_fn(COMMON, "CollectionV3::serialize_contig_names", [Ref(src), Int(64, 0, 0), Int(64, 0, 1)])
        db = e.vec_items(data)
        for x in db:
            if x.conc() and x.v >= 129:
                e.witness("delta_coded")
        dst = mk_collection(e, [([Int(8, 0, ord("s"))], [])])
        r = e.call_fn(COMMON, "CollectionV3::deserialize_contig_names", [Ref(dst), e.slice_of(db), Int(64, 0, 0)])
        if e.concrete is not None:
            cs = e.field(sample_descs(e, dst)[0], "SampleDesc", "contigs").e if r.variant == 0 else []
            return {"names": [[x.v for x in e.vec_items(e.field(c, "ContigDesc", "name"))] for c in cs], "ok": r.variant == 0}
        e.prove(r.variant == 0, "cat:names", "deserialize_contig_names failed on serialize_contig_names output")
        cs = e.field(sample_descs(e, dst)[0], "SampleDesc", "contigs").e
        e.prove(len(cs) == nc, "cat:names", f"{len(cs)} contig names read back, {nc} written")
        for i in range(nc):
            e.prove(same_str(e, e.field(cs[i], "ContigDesc", "name"), names[i]), "cat:names", f"contig name {i} is not read back verbatim")
        return None

    def classify_panic(self, e, ex):
        return f"cat:panic:{ex.where.split('::')[-1]}:{ex.kind}", str(ex)

    def native(self, inp):
        nc = 2 + inp.get("nc2", 0)
        return "catalogue", {"samples": [{"name": [115], "contigs": [{"name": inp[f"name{i}"], "segs": []} for i in range(nc) if f"name{i}" in inp]}], "batches": [1]}

    def concrete_cases(self, rnd):
        if self.long_base is not None:
            return []
        out = []
        while len(out) < 20:
            nc = 2 + rnd.randrange(self.nc - 1); c = {"nc2": nc - 2}
            for i in range(nc):
                n = rnd.randrange(self.maxlen + 1)
                c[f"n{i}"] = n; c[f"name{i}"] = [rnd.choice(self.alpha) for _ in range(n)]
            if len({tuple(c[f"name{i}"]) for i in range(nc)}) < nc:
                continue        # the native side registers contigs through register_sample_contig, which merges identical names of one sample
            out.append(c)
        return out

    def compare(self, s, n):
        return s["ok"] and s["names"] == [c["name"] for c in n.get("samples", [{}])[0].get("contigs", [])]


class Details(Instance):
    crates = ("ragc-common",)
    required_witnesses = ("repeat_group", "zero_id")

    def __init__(self, name, nseg, gids, vary="ids"):
        Instance.__init__(self, name)
        self.nseg, self.gids, self.vary = nseg, gids, vary
        self.bounds = {"segments": f"1..{nseg} over 1..2 contigs", "group_id": f"symbolic over {gids}", "varied": "in_group_id symbolic <= 2^31-2 (raw_length, segment_size, k concrete)" if vary == "ids" else "raw_length symbolic u32, segment_size <= 2^20 and k 1..32 symbolic (in_group_id concrete)",
                       "is_rev_comp": "symbolic", "segment_size": "symbolic <= 2^20", "kmer_length": "symbolic 1..32"}

    def path(self, e):
        ns = 1 + e.choose(self.nseg, "ns1")
        split = e.choose(ns + 1, "split") if ns > 1 else ns      # segments [0,split) in contig 0, rest in contig 1
        segs = []
        for i in range(ns):
            g = e.sym_int(f"g{i}", 32, among=self.gids); rc = e.sym_bool(f"r{i}")
            if self.vary == "ids":
                ig = e.sym_int(f"i{i}", 32, hi=(1 << 31) - 2); rl = Int(32, 0, 1021 + i); e.inputs[f"l{i}"] = rl
            else:
                ig = Int(32, 0, i + 1); e.inputs[f"i{i}"] = ig; rl = e.sym_int(f"l{i}", 32)
            segs.append(e.struct("SegmentDesc", group_id=g, in_group_id=ig, is_rev_comp=rc, raw_length=rl))
        if self.vary == "ids":
            ss = Int(32, 0, 1000); k = Int(32, 0, 21); e.inputs["segment_size"] = 1000; e.inputs["k"] = 21
        else:
            ss = e.sym_int("segment_size", 32, hi=1 << 20); k = e.sym_int("k", 32, lo=1, hi=32)
        contigs = [([Int(8, 0, 97)], segs[:split])] + ([([Int(8, 0, 98)], segs[split:])] if split < ns else [])
        src = mk_collection(e, [([Int(8, 0, 115)], [(n_, [copy_val(s_) for s_ in sg]) for n_, sg in contigs])], ss, k)
        v5 = e.call_fn(COMMON, "CollectionV3::serialize_contig_details", [Ref(src), Int(64, 0, 0), Int(64, 0, 1)])
        dst = mk_collection(e, [([Int(8, 0, 115)], [(n_, []) for n_, sg in contigs])], ss, k)
        r = e.call_fn(COMMON, "CollectionV3::deserialize_contig_details", [Ref(dst), Ref(Cell(v5)), Int(64, 0, 0)])
        e.prove(r.variant == 0, "cat:details", "deserialize_contig_details failed on serialize_contig_details output")
        cs = e.field(sample_descs(e, dst)[0], "SampleDesc", "contigs").e
        got = [s_ for c in cs for s_ in e.field(c, "ContigDesc", "segments").e]
        e.prove(len(got) == ns, "cat:details", f"{len(got)} descriptors read back, {ns} written")
        for i, (a, b) in enumerate(zip(got, segs)):
            for fld in ("group_id", "in_group_id", "raw_length", "is_rev_comp"):
                e.prove(e.binop("Eq", e.field(a, "SegmentDesc", fld), e.field(b, "SegmentDesc", fld)), "cat:details", f"descriptor {i}: {fld} is not read back unchanged")
        for i in range(1, ns):
            if e.feasible(e.binop("Eq", e.field(segs[i], "SegmentDesc", "group_id").z(), e.field(segs[0], "SegmentDesc", "group_id").z())):
                e.witness("repeat_group")
        e.witness("zero_id")
        return None

    def classify_panic(self, e, ex):
        return f"cat:panic:{ex.where.split('::')[-1]}:{ex.kind}", str(ex)

    def native(self, inp):
        ns = 1 + inp.get("ns1", 0); split = inp.get("split", ns)
        segs = [[inp[f"g{i}"], inp[f"i{i}"], bool(inp[f"r{i}"]), inp[f"l{i}"]] for i in range(ns) if f"g{i}" in inp]
        contigs = [{"name": [97], "segs": segs[:split]}] + ([{"name": [98], "segs": segs[split:]}] if split < ns else [])
        return "catalogue", {"samples": [{"name": [115], "contigs": contigs}], "batches": [1], "segment_size": inp.get("segment_size", 1000), "k": inp.get("k", 21)}


class Batches(Instance):
    """Several metadata batches through store_contig_batch / load_contig_batch and the real Archive."""
    crates = ("ragc-common",)
    required_witnesses = ("two_batches",)

    def __init__(self, name, nsamples, max_id=300):
        Instance.__init__(self, name)
        self.nsamples, self.max_id = nsamples, max_id
        self.bounds = {"samples": f"2..{nsamples}, one contig with one segment each, batches of 1..2 samples in every split", "in_group_id": f"symbolic <= {max_id}",
                       "group_id": "16 (shared by all samples: the predictor state crosses batch boundaries)", "names": "concrete distinct"}

    def path(self, e):
        from mirsym import models_io
        e.fs = models_io.FS()
        n = 2 + e.choose(self.nsamples - 1, "n2")
        samples, segs = [], []
        for i in range(n):
            ig = e.sym_int(f"i{i}", 32, hi=self.max_id); rl = Int(32, 0, 1000 + i)
            e.inputs[f"l{i}"] = rl
            sd = e.struct("SegmentDesc", group_id=Int(32, 0, 16), in_group_id=ig, is_rev_comp=False, raw_length=rl)
            segs.append(sd)
            samples.append(([Int(8, 0, 115), Int(8, 0, 48 + i)], [([Int(8, 0, 99), Int(8, 0, 48 + i)], [copy_val(sd)])]))
        # batch boundaries: every composition into batches of size 1 or 2
        bounds, pos = [], 0
        while pos < n:
            sz = 1 + (e.choose(2, f"bs{pos}") if pos + 1 < n else 0)
            bounds.append((pos, pos + sz)); pos += sz
        if len(bounds) > 1:
            e.witness("two_batches")
        e.inputs["batches"] = [b - a for a, b in bounds]
        src = mk_collection(e, samples)
        arc = Cell(e.call_fn(COMMON, "Archive::new_writer", [])); ar = Ref(arc)
        e.call_fn(COMMON, "Archive::open", [ar, e.str_slice(PATH)])
        e.call_fn(COMMON, "CollectionV3::prepare_for_compression", [Ref(src), ar])
        r = e.call_fn(COMMON, "CollectionV3::store_batch_sample_names", [Ref(src), ar]); e.prove(r.variant == 0, "cat:batches", "store_batch_sample_names failed")
        for a, b in bounds:
            r = e.call_fn(COMMON, "CollectionV3::store_contig_batch", [Ref(src), ar, Int(64, 0, a), Int(64, 0, b)]); e.prove(r.variant == 0, "cat:batches", "store_contig_batch failed")
        e.call_fn(COMMON, "Archive::flush_buffers", [ar]); e.call_fn(COMMON, "Archive::close", [ar])
        rdc = Cell(e.call_fn(COMMON, "Archive::new_reader", [])); rd = Ref(rdc)
        r = e.call_fn(COMMON, "Archive::open", [rd, e.str_slice(PATH)]); e.prove(r.variant == 0, "cat:batches", "reopen failed")
        dst = Cell(e.call_fn(COMMON, "CollectionV3::new", []))
        e.call_fn(COMMON, "CollectionV3::set_config", [Ref(dst), Int(32, 0, 1000), Int(32, 0, 21), none()])
        r = e.call_fn(COMMON, "CollectionV3::prepare_for_decompression", [Ref(dst), rd]); e.prove(r.variant == 0, "cat:batches", "prepare_for_decompression failed")
        r = e.call_fn(COMMON, "CollectionV3::load_batch_sample_names", [Ref(dst), rd]); e.prove(r.variant == 0, "cat:batches", "load_batch_sample_names failed")
        for b in range(len(bounds)):
            r = e.call_fn(COMMON, "CollectionV3::load_contig_batch", [Ref(dst), rd, Int(64, 0, b)]); e.prove(r.variant == 0, "cat:batches", f"load_contig_batch({b}) failed")
        sds = sample_descs(e, dst)
        e.prove(len(sds) == n, "cat:samples", f"{len(sds)} samples listed, {n} stored")
        for i in range(n):
            e.prove(same_str(e, e.field(sds[i], "SampleDesc", "name"), samples[i][0]), "cat:samples", f"sample {i} name/order differs")
            cs = e.field(sds[i], "SampleDesc", "contigs").e
            e.prove(len(cs) == 1, "cat:batches", f"sample {i} lists {len(cs)} contigs, 1 stored")
            e.prove(same_str(e, e.field(cs[0], "ContigDesc", "name"), samples[i][1][0][0]), "cat:names", f"contig name of sample {i} differs")
            sg = e.field(cs[0], "ContigDesc", "segments").e
            e.prove(len(sg) == 1, "cat:details", f"sample {i}: {len(sg)} descriptors, 1 stored")
            for fld in ("group_id", "in_group_id", "raw_length", "is_rev_comp"):
                e.prove(e.binop("Eq", e.field(sg[0], "SegmentDesc", fld), e.field(segs[i], "SegmentDesc", fld)), "cat:details", f"sample {i}: {fld} differs after the batch round trip")
        return None

    def classify_panic(self, e, ex):
        return f"cat:panic:{ex.where.split('::')[-1]}:{ex.kind}", str(ex)

    def native(self, inp):
        n = 2 + inp.get("n2", 0)
        samples = [{"name": [115, 48 + i], "contigs": [{"name": [99, 48 + i], "segs": [[16, inp.get(f"i{i}", 0), False, inp.get(f"l{i}", 0)]]}]} for i in range(n)]
        return "catalogue", {"samples": samples, "batches": inp.get("batches", [n])}


INSTANCES = {}


def _reg(i):
    INSTANCES[i.name] = i
    return i


AL = [ord(c) for c in "ab \t"]
QUICK = [_reg(Names("names_q", 2, 4, AL)).name, _reg(Names("longrun_q", 2, 0, [ord("A"), ord("B"), 32], long_base=99)).name,
         _reg(Details("details_ids_q", 2, [16, 17], "ids")).name, _reg(Details("details_len_q", 2, [16, 17], "len")).name, _reg(Batches("batches_q", 3)).name]
THOROUGH = [_reg(Names("T_names", 3, 4, AL)).name, _reg(Names("T_names5", 2, 6, [ord(c) for c in "ab "])).name,
            _reg(Names("T_longrun100", 2, 0, [ord("A"), ord("B"), 32], long_base=99)).name, _reg(Names("T_longrun200", 2, 0, [ord("A"), ord("B"), 32], long_base=199)).name,
            _reg(Details("T_details_ids", 3, [16, 17, 3], "ids")).name, _reg(Details("T_details_len", 3, [16, 17], "len")).name, _reg(Batches("T_batches", 4)).name]


def run(ctx):
    insts = [INSTANCES[n] for n in (QUICK if ctx["tier"] == "quick" else THOROUGH)]
    return run_instances("C03", "harness.C03", insts, ctx,
                         assumptions=["in-group ids are at most 2^31-2 (the code casts them to i32 and computes prev+1: the id 2^31-1 overflows in checked builds; it would need > 2*10^9 segments in one group, which the u32-sized descriptor streams cannot hold)", "names are printable ASCII",
                                      "ZSTD is an abstract lossless codec stub (libzstd is C code behind FFI)", "zig-zag integer codecs are also decided over all inputs by Kani (C20 engine, harness zigzag_*)"])
