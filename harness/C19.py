"""C19 — extraction is invariant under how the input is presented (parser level).
E2 (mirsym): a symbolic record list is rendered under an arbitrary presentation (line width, LF/CRLF, per-base case,
final newline, blank separator lines) and parsed by the real GenomeIO reader; the result must equal the source records,
hence any two presentations give identical (header, code sequence) lists. Sample naming: PanSN header rule."""
import z3
from mirsym.values import *
from mirsym.values import b_and, b_or, b_not
from mirsym.models import ite_int
from harness.base import Instance, run_instances
from harness.fasta_common import *

HDR = [ord(c) for c in "a#1 "]
BASES = [ord(c) for c in "ACGTNRX"]


class Present(Instance):
    def __init__(self, name, nrec, maxhdr, maxb, widths):
        Instance.__init__(self, name)
        self.nrec, self.maxhdr, self.maxb, self.widths = nrec, maxhdr, maxb, widths
        self.required_witnesses = ("crlf", "wrapped", "lower", "no_final_newline", "two_records")
        self.bounds = {"records": f"1..{nrec}", "header": f"1..{maxhdr} bytes over {[chr(c) for c in HDR]} (no leading/trailing blank)",
                       "bases": f"1..{maxb} letters over {[chr(c) for c in BASES]} per record",
                       "presentation": f"line width in {widths} (0 = unwrapped), LF or CRLF, symbolic case per base, final newline or not, optional blank line between records"}

    def path(self, e):
        nrec = 1 + e.choose(self.nrec, "nrec1")
        if nrec > 1:
            e.witness("two_records")
        text, src = [], []
        crlf = e.choose(2, "crlf"); w = self.widths[e.choose(len(self.widths), "w")]
        final_nl = e.choose(2, "final_nl"); blank = e.choose(2, "blank") if nrec > 1 else 0
        eol = [Int(8, 0, 13), Int(8, 0, 10)] if crlf else [Int(8, 0, 10)]
        if crlf:
            e.witness("crlf")
        if not final_nl:
            e.witness("no_final_newline")
        for r in range(nrec):
            hl = 1 + e.choose(self.maxhdr, f"hl{r}")
            h = e.sym_bytes(f"h{r}", hl, among=HDR)
            e.assume(e.binop("Ne", h[0], Int(8, 0, 32))); e.assume(e.binop("Ne", h[-1], Int(8, 0, 32)))
            nb = 1 + e.choose(self.maxb, f"nb{r}")
            b = e.sym_bytes(f"b{r}", nb, among=BASES)
            lower = [e.sym_bool(f"lc{r}_{i}") for i in range(nb)]
            shown = [ite_int(l, e.binop("Add", x, Int(8, 0, 32)), x) for x, l in zip(b, lower)]
            text += [Int(8, 0, ord(">"))] + h + eol
            if w and nb > w:
                e.witness("wrapped")
            step = w or nb
            for i in range(0, nb, step):
                text += shown[i:i + step]
                last = (r == nrec - 1 and i + step >= nb)
                if not last or final_nl:
                    text += eol
            if blank and r < nrec - 1:
                text += eol
            src.append((h, [code_of(e, x) for x in b]))
        e.inputs["text"] = text
        got, status = parse_all(e, text)
        if e.concrete is not None:
            return {"records": [[[x.v for x in h], [x.v for x in s]] for h, s in got], "status": status}
        for i in range(len(src)):
            for l in [e.inputs.get(f"lc{i}_{j}") for j in range(len(src[i][1]))]:
                if l is not False and l is not None:
                    e.witness("lower")
        e.prove(status == "end", "present:reader_error", f"reader status {status} on well-formed FASTA")
        e.prove(len(got) == len(src), "present:record_count", f"{len(got)} records parsed from a presentation of {len(src)} records")
        for i, ((gh, gs), (xh, xs)) in enumerate(zip(got, src)):
            e.prove(len(gh) == len(xh) and e.eq_bytes(gh, xh), "present:header", f"header of record {i} depends on the presentation")
            e.prove(len(gs) == len(xs) and e.eq_bytes(gs, xs), "present:sequence", f"codes of record {i} depend on the presentation (wrapping / line ends / case)")
        return None

    def classify_panic(self, e, ex):
        return f"present:panic:{ex.where.split('::')[-1]}:{ex.kind}", str(ex)

    def concrete_text(self, c):
        nrec = 1 + c["nrec1"]; w = self.widths[c["w"]]; eol = [13, 10] if c["crlf"] else [10]
        blank = c.get("blank", 0) if nrec > 1 else 0
        t = []
        for r in range(nrec):
            b = c[f"b{r}"]; nb = len(b)
            shown = [x + 32 if c[f"lc{r}_{i}"] else x for i, x in enumerate(b)]
            t += [62] + list(c[f"h{r}"]) + eol
            step = w or nb
            for i in range(0, nb, step):
                t += shown[i:i + step]
                if not (r == nrec - 1 and i + step >= nb) or c["final_nl"]:
                    t += eol
            if blank and r < nrec - 1:
                t += eol
        return t

    def native(self, inp):
        # the expectation travels with the case: source records in canonical form
        if "text" not in inp:
            inp = dict(inp, text=self.concrete_text(inp))
        recs = []
        for r in range(1 + inp.get("nrec1", 0)):
            if f"h{r}" in inp:
                recs.append([inp[f"h{r}"], inp[f"b{r}"]])
        return "fasta_present", {"text": inp["text"], "source": recs}

    def concrete_cases(self, rnd):
        out = []
        for _ in range(24):
            c = {"nrec1": rnd.randrange(self.nrec), "crlf": rnd.randrange(2), "w": rnd.randrange(len(self.widths)), "final_nl": rnd.randrange(2), "blank": rnd.randrange(2)}
            for r in range(c["nrec1"] + 1):
                hl = 1 + rnd.randrange(self.maxhdr); nb = 1 + rnd.randrange(self.maxb)
                h = [rnd.choice(HDR[:3]) for _ in range(hl)]
                c.update({f"hl{r}": hl - 1, f"h{r}": h, f"nb{r}": nb - 1, f"b{r}": [rnd.choice(BASES) for _ in range(nb)]})
                for i in range(nb):
                    c[f"lc{r}_{i}"] = rnd.random() < 0.5
            out.append(c)
        return out

    def compare(self, s, n):
        return s["records"] == n.get("records") and s["status"] == n.get("status")


class PanSN(Instance):
    """parse_sample_from_header: 'a#b#c...' -> sample 'a#b', contig = rest; fewer than two '#' -> ('unknown', header)."""
    def __init__(self, name, maxlen):
        Instance.__init__(self, name)
        self.maxlen = maxlen
        self.required_witnesses = ("pansn", "plain")
        self.bounds = {"header": f"every string of length 0..{maxlen} over ['a','b','#']"}

    def path(self, e):
        n = e.choose(self.maxlen + 1, "n")
        h = e.sym_bytes("h", n, among=[ord("a"), ord("b"), ord("#")])
        r = e.call_fn(CORE, "parse_sample_from_header", [e.slice_of(h)])
        sample, contig = e.vec_items(r.f[0]), e.vec_items(r.f[1])
        if e.concrete is not None:
            return {"sample": [x.v for x in sample], "contig": [x.v for x in contig]}
        # reference: positions of '#'
        pos = [i for i in range(n) if e.branch(e.binop("Eq", h[i], Int(8, 0, ord("#"))))]
        if len(pos) >= 2:
            e.witness("pansn")
            xs, xc = h[:pos[1]], h[pos[1] + 1:]
        else:
            e.witness("plain")
            xs, xc = [Int(8, 0, c) for c in b"unknown"], h
        e.prove(len(sample) == len(xs) and e.eq_bytes(sample, xs), "present:pansn_sample", "sample name is not 'sample#haplotype'")
        e.prove(len(contig) == len(xc) and e.eq_bytes(contig, xc), "present:pansn_contig", "contig name is not the remainder of the header")
        return None

    def native(self, inp):
        return "pansn", {"h": inp["h"]}

    def concrete_cases(self, rnd):
        return [{"n": n, "h": [rnd.choice([97, 98, 35]) for _ in range(n)]} for n in [0, 1, 2, 3, 4, 5, 5, 6, 6, 6] if n <= self.maxlen]

    def compare(self, s, n):
        return s["sample"] == n.get("sample") and s["contig"] == n.get("contig")


class FileNaming(Instance):
    """Sample name derived from the file name (non-PanSN headers): the plain and the gzip presentation of the same file must give the
    same sample name, and for a base name that does not itself end in .fa/.fasta the name is the base name."""
    crates = ("ragc-core", "ragc-common")
    required_witnesses = ("dotted_base", "plain_base")

    def __init__(self, name, maxlen, alpha):
        Instance.__init__(self, name)
        self.maxlen, self.alpha = maxlen, alpha
        self.bounds = {"base name": f"every string of length 1..{maxlen} over {[chr(c) for c in alpha]} (first character not '.')", "extension": ".fa / .fasta, each plain and with .gz",
                       "content": "one record with a non-PanSN header", "gzip": "container modelled as the identity: only the naming rule is in scope here"}

    def sample_of(self, e, path):
        from mirsym import models_io
        fd = models_io.FileData(); fd.data[:] = [Int(8, 0, b) for b in b">c1\nAC\n"]
        e.fs.files[bytes(x.v for x in path) if all(x.conc() for x in path) else None] = fd
        it = e.call_fn(CORE, "MultiFileIterator::new", [VecObj([VecObj(list(path), "String")])])
        e.prove(it.variant == 0, "present:open_failed", "MultiFileIterator::new failed on an existing file")
        ic = Cell(it.f[0])
        r = e.call_fn(CORE, "<MultiFileIterator as ContigIterator>::next_contig", [Ref(ic)])
        e.prove(r.variant == 0 and r.f[0].variant == 1, "present:no_record", "the record of the file was not returned")
        return e.vec_items(r.f[0].f[0].f[0])

    def path(self, e):
        from mirsym import models_io
        e.fs = models_io.FS()
        n = 1 + e.choose(self.maxlen, "n1")
        base = [Int(8, 0, self.alpha[e.choose(len(self.alpha), f"b{i}")]) for i in range(n)]     # concrete per path: the file model is keyed by name
        if base[0].v == 46:
            raise Infeasible()
        e.inputs["base"] = [x.v for x in base]
        ext = [b".fa", b".fasta"][e.choose(2, "ext")]
        e.inputs["ext"] = ext.decode()
        c8 = lambda b: [Int(8, 0, x) for x in b]
        plain = self.sample_of(e, c8(b"/in/") + base + c8(ext))
        gz = self.sample_of(e, c8(b"/in/") + base + c8(ext) + c8(b".gz"))
        bs = bytes(x.v for x in base)
        e.witness("dotted_base" if b"." in bs else "plain_base")
        if e.concrete is not None:
            return {"plain": [x.v for x in plain], "gz": [x.v for x in gz]}
        e.prove(len(plain) == len(gz) and e.eq_bytes(plain, gz), "present:sample_name", f"file {bs.decode()}{ext.decode()} gives sample {bytes(x.v for x in plain)!r}, its .gz presentation gives {bytes(x.v for x in gz)!r}")
        if not (bs.endswith(b".fa") or bs.endswith(b".fasta")):
            e.prove(bytes(x.v for x in plain) == bs, "present:sample_name", f"file {bs.decode()}{ext.decode()} gives sample {bytes(x.v for x in plain)!r}, expected the file name without its FASTA extension")
        return None

    def classify_panic(self, e, ex):
        return f"present:panic:{ex.where.split('::')[-1]}:{ex.kind}", str(ex)

    def native(self, inp):
        base = inp.get("base") or [self.alpha[inp.get(f"b{i}", 0)] for i in range(1 + inp.get("n1", 0))]
        ext = inp.get("ext", ".fa")
        return "file_naming", {"base": base, "ext": ext if isinstance(ext, str) else [".fa", ".fasta"][ext]}

    def confirm(self, viol, outs):
        for o in outs.values():
            if "panic" in o or "crash" in o:
                return True
            bs = bytes(viol["inputs"].get("base", []))
            if o.get("plain") != o.get("gz"):
                return True
            if not (bs.endswith(b".fa") or bs.endswith(b".fasta")) and o.get("plain") != list(bs):
                return True
        return False

    def concrete_cases(self, rnd):
        out = []
        for _ in range(6):
            n = 1 + rnd.randrange(self.maxlen)
            idx = [rnd.randrange(len(self.alpha)) for _ in range(n)]
            if self.alpha[idx[0]] == 46:
                idx[0] = 0
            c = {"n1": n - 1, "ext": rnd.randrange(2)}
            for i, k in enumerate(idx):
                c[f"b{i}"] = k
            out.append(c)
        return out

    def compare(self, s, n):
        return s["plain"] == n.get("plain") and s["gz"] == n.get("gz")


INSTANCES = {}


def _reg(i):
    INSTANCES[i.name] = i
    return i


QUICK = [_reg(Present("present_q", 2, 2, 3, [0, 1, 2])).name, _reg(PanSN("pansn_q", 6)).name, _reg(FileNaming("naming_q", 5, [ord(c) for c in "a.f"])).name]
THOROUGH = [_reg(Present("T_present", 2, 3, 5, [0, 1, 2, 3])).name, _reg(PanSN("T_pansn", 8)).name, _reg(FileNaming("T_naming", 6, [ord(c) for c in "a.fs"])).name]


# archive level, through the real CLI create path (harness/cli_create.py)
from harness import cli_create as _cc
for _n in ['present_arc', 'pan_vs_files', 'create_pan_prefix_t1']:
    INSTANCES[_n] = _cc.INSTANCES[_n]
QUICK += ['present_arc', 'pan_vs_files', 'create_pan_prefix_t1']; THOROUGH += ['present_arc', 'pan_vs_files', 'create_pan_prefix_t1']


def run(ctx):
    insts = [INSTANCES[n] for n in (QUICK if ctx["tier"] == "quick" else THOROUGH)]
    return run_instances("C19", "harness.C19", insts, ctx,
                         assumptions=["gzip / multi-member gzip decoding is outside the claim (inflate cannot be encoded): only the text that reaches the record reader is varied",
                                      "byte-identity of whole archives is outside the claim; identical parser output implies identical compressor input"])
