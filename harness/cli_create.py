"""CLI-level create: the REAL ragc-cli `create_archive` (main.rs) on FASTA files held by the file-system model — file iteration,
sample naming, splitter discovery from the first file, the whole compression pipeline with its worker threads, finalize — and the
real Decompressor reading the result. Used by C17 (exit 0 ⇒ archive lists and returns every input sample), C16 (arbitrary small
FASTA text) and C19 (two presentations of the same sequences ⇒ byte-identical archives)."""
import z3
from mirsym.values import *
from mirsym.values import b_and, b_or, b_not
from mirsym.sched import Sched
from harness.base import Instance, run_instances

CLI, CORE = "ragc-cli", "ragc-core"
OUT = b"/out/new.agc"
LETTERS = b"ACGTNRYSWKMBDHVU"
S = lambda b: VecObj([Int(8, 0, x) for x in b], "String")


def fasta(records, width=0, eol=b"\n", lower=False, final_nl=True):
    out = b""
    for i, (h, seq) in enumerate(records):
        out += b">" + h + eol
        s = bytes(LETTERS[c] if c < 16 else ord("X") for c in seq)
        if lower:
            s = s.lower()
        w = width or len(s) or 1
        lines = [s[j:j + w] for j in range(0, len(s), w)] or [b""]
        out += eol.join(lines)
        if final_nl or i < len(records) - 1:
            out += eol
    return out


def run_create(e, files, threads=1, k=3, seg=4, mm=4, pack=50, preempt=0, zstd="token", items=None):
    """files: [(path bytes, content bytes or list of Int)] -> Result of create_archive"""
    from mirsym import models_io
    e.fs = models_io.FS()
    e.h["zstd_mode"] = zstd
    s = Sched(e, max_switches=80000, max_preempt=preempt); e.sched = s
    for p, content in files:
        fd = models_io.FileData()
        fd.data[:] = [Int(8, 0, b) for b in content] if isinstance(content, (bytes, bytearray)) else list(content)
        e.fs.files[p] = fd
    r = e.call_fn(CLI, "create_archive", [S(OUT), VecObj([S(p) for p, _ in files]), Int(32, 0, k), Int(32, 0, seg), Int(32, 0, mm), Int(32, 0, pack), Int(32, 1, 17), Int(32, 0, 0),
                                          False, False, some(Int(64, 0, threads)), False, e.str_slice(b"1M"), 0.0, False])
    s.join_all()
    e.sched = None
    return r


def read_all(e):
    """[(sample, [(contig name, [codes])])] through the real reader, or None when open fails"""
    cfg = e.struct("DecompressorConfig", verbosity=Int(32, 0, 0))
    r = e.call_fn(CORE, "Decompressor::open", [e.str_slice(OUT), cfg])
    if r.variant != 0:
        return None
    h = Cell(r.f[0])
    names = [e.vec_items(n) for n in e.vec_items(e.call_fn(CORE, "Decompressor::list_samples", [Ref(h)]))]
    out = []
    for nm in names:
        g = e.call_fn(CORE, "Decompressor::get_sample", [Ref(h), e.as_slice(Ref(Cell(VecObj(list(nm), "String"))))])
        if g.variant != 0:
            out.append((nm, None)); continue
        out.append((nm, [(e.vec_items(t.f[0]), e.vec_items(t.f[1])) for t in e.vec_items(g.f[0])]))
    return out


class CliCreate(Instance):
    crates = ("ragc-cli", "ragc-core", "ragc-common")

    def __init__(self, name, files, threads=1, preempt=0, k=3):
        """files: [(file name, [(header bytes, [codes])])] — sample name = file stem (headers are not PanSN)"""
        Instance.__init__(self, name)
        self.files, self.threads, self.preempt, self.k = files, threads, preempt, k
        self.required_witnesses = ("created", "extracted")
        self.n_concrete = 0
        self.native_timeout = 1200
        self.max_wall = 7200
        self.bounds = {"inputs": f"{len(files)} FASTA file(s) {[f for f, _ in files]} with {[len(r) for _, r in files]} records (concrete), k={k}, segment size 4, {threads} worker thread(s)",
                       "schedules": f"every interleaving within preemption bound {preempt}"}

    def path(self, e):
        fl = [(b"/in/" + fn, fasta(recs)) for fn, recs in self.files]
        r = run_create(e, fl, threads=self.threads, k=self.k, preempt=self.preempt)
        e.prove(r.variant == 0, "cli:create_failed", "create_archive returned Err on well-formed inputs")
        e.witness("created")
        got = read_all(e)
        e.prove(got is not None, "cli:create_success_without_archive", "create returned Ok but the archive cannot be opened")
        want = self.want()
        gotc = [(bytes(x.v for x in nm), None if cs is None else [(bytes(x.v for x in h), [x.v for x in sq]) for h, sq in cs]) for nm, cs in got]
        e.prove([g[0] for g in gotc] == [w[0] for w in want], "cli:create_sample_list", f"archive lists {[g[0] for g in gotc]}, inputs were {[w[0] for w in want]}")
        for g, w in zip(gotc, want):
            e.prove(g[1] is not None, "cli:create_extract_failed", f"sample {g[0]!r} is listed but cannot be extracted")
            e.prove(g[1] == w[1], "cli:create_roundtrip", f"sample {g[0]!r}: extracted {g[1]} != input {w[1]}")
        e.witness("extracted")
        return None

    def want(self):
        """[(sample, [(contig name = whole header, codes)])] in input order: sample = PanSN prefix a#b of the header, else the file stem"""
        out = []
        for fn, recs in self.files:
            for h, sq in recs:
                if len(sq) == 0:
                    continue
                parts = h.split(b"#")
                sm = b"#".join(parts[:2]) if len(parts) >= 3 else fn.split(b".")[0]
                if not out or out[-1][0] != sm:
                    out.append((sm, []))
                out[-1][1].append((h, list(sq)))
        return out

    def classify_panic(self, e, ex):
        return f"cli:panic:{ex.where.split('::')[-1]}:{ex.kind}", str(ex)

    def native(self, inp):
        return "cli_create_roundtrip", {"files": [[fn.decode(), fasta(recs).decode()] for fn, recs in self.files], "threads": self.threads, "k": self.k,
                                        "want": [[sm.decode(), [[h.decode(), "".join(chr(LETTERS[c]) if c < 16 else "N" for c in sq)] for h, sq in cs]] for sm, cs in self.want()]}

    def confirm(self, viol, outs):
        return any(("panic" in o or "crash" in o or o.get("ok") is False) for o in outs.values())


C1 = [0, 1, 2, 3, 0, 0, 1, 2, 2, 3, 1, 3, 3, 0, 2, 1, 1]
C2 = [0, 1, 2, 3, 0, 0, 1, 2, 0, 3, 1, 3, 3, 0, 2, 1, 1]
FILES2 = [(b"ref.fa", [(b"chr1", C1), (b"chr2 desc", [3, 3, 2, 0]), (b"tiny", [1, 2])]), (b"smp.fa", [(b"chr1", C2), (b"chrX", C1[:9] + [7] + C1[10:]), (b"short", [2, 1])]),
          (b"tiny.fa", [(b"only", [1])])]          # non-reference inputs with contigs shorter than k, and a sample made only of such a contig
INSTANCES = {}


def _reg(i):
    INSTANCES[i.name] = i
    return i


_reg(CliCreate("create_two_t1", FILES2, threads=1))
_reg(CliCreate("create_two_t2", FILES2, threads=2))


class CliPresentations(Instance):
    """C19 at archive level: the same sequences presented with any line width / LF or CRLF / lower case / with or without final newline
    give a byte-identical archive (through the real CLI create path)."""
    crates = ("ragc-cli", "ragc-core", "ragc-common")

    def __init__(self, name, files, threads=1):
        Instance.__init__(self, name)
        self.files, self.threads = files, threads
        self.required_witnesses = ("crlf", "wrapped", "lower", "no_final_newline")
        self.n_concrete = 0
        self.bounds = {"inputs": f"{len(files)} files (concrete sequences)", "presentation": "line width in {unwrapped, 1, 5} x {LF, CRLF} x {upper, lower} x {final newline or not}, chosen independently of the canonical presentation (unwrapped, LF, upper, final newline)"}

    def archive(self, e, **pres):
        fl = [(b"/in/" + fn, fasta(recs, **pres)) for fn, recs in self.files]
        r = run_create(e, fl, threads=self.threads)
        e.prove(r.variant == 0, "present:create_failed", f"create_archive failed for presentation {pres}")
        return [x.v for x in e.fs.files[OUT].data]

    def path(self, e):
        c = self.__dict__.setdefault("_canon", {})
        if "a" not in c:
            c["a"] = self.archive(e)
        w = [0, 1, 5][e.choose(3, "width")]; crlf = e.choose(2, "crlf"); lower = e.choose(2, "lower"); fnl = e.choose(2, "final_nl")
        for tag, cond in (("crlf", crlf), ("wrapped", w), ("lower", lower), ("no_final_newline", not fnl)):
            if cond:
                e.witness(tag)
        got = self.archive(e, width=w, eol=b"\r\n" if crlf else b"\n", lower=bool(lower), final_nl=bool(fnl))
        e.prove(got == c["a"], "present:archive_differs", f"archive bytes differ between the canonical presentation and width={w}, crlf={crlf}, lower={lower}, final_nl={fnl} "
                f"({len(got)} vs {len(c['a'])} bytes)")
        return None

    def classify_panic(self, e, ex):
        return f"present:panic:{ex.where.split('::')[-1]}:{ex.kind}", str(ex)

    def native(self, inp):
        w = [0, 1, 5][inp.get("width", 0)]
        pres = dict(width=w, eol=b"\r\n" if inp.get("crlf") else b"\n", lower=bool(inp.get("lower")), final_nl=bool(inp.get("final_nl", 1)))
        return "cli_create_identical", {"files_a": [[fn.decode(), fasta(recs).decode()] for fn, recs in self.files],
                                        "files_b": [[fn.decode(), fasta(recs, **pres).decode()] for fn, recs in self.files], "threads": self.threads}

    def confirm(self, viol, outs):
        return any(("panic" in o or "crash" in o or o.get("ok") is False) for o in outs.values())


class CliAnyText(Instance):
    """C16 at archive level: the non-reference sample's FASTA text has symbolic sequence bytes (letters in both cases, IUPAC and not,
    digits/gaps, line feeds); create either fails or the archive lists and returns every sample under the documented normalisation."""
    crates = ("ragc-cli", "ragc-core", "ragc-common")
    ALPHA = [ord(c) for c in "ACTNXRa-"] + [10]

    def __init__(self, name, nsym, threads=1):
        Instance.__init__(self, name)
        self.nsym, self.threads = nsym, threads
        self.required_witnesses = ("created", "extracted", "unknown_letter", "lower_case")
        self.n_concrete = 0
        self.bounds = {"reference file": "ref.fa, 2 records (concrete)", "second file": f"smp.fa: '>c1' + LF + {nsym} symbolic bytes over {[chr(c) if c != 10 else 'LF' for c in self.ALPHA]} + LF + a concrete record",
                       "normalisation": "upper case, bytes <= '@' dropped, letters outside the IUPAC set read back as N"}

    def path(self, e):
        sym = e.sym_bytes("t", self.nsym, among=self.ALPHA)
        c8 = lambda b: [Int(8, 0, x) for x in b]
        smp = c8(b">c1\n") + sym + c8(b"\n>c2\nACGTAACG\n")
        fl = [(b"/in/ref.fa", fasta(FILES2[0][1])), (b"/in/smp.fa", smp)]
        r = run_create(e, fl, threads=self.threads)
        # concrete value of every symbolic byte on this path (the alphabet is small: decided by branching)
        vals = []
        for b in sym:
            v = None
            for a in self.ALPHA:
                if e.branch(e.binop("Eq", b, Int(8, 0, a))):
                    v = a; break
            vals.append(v)
        e.inputs["text"] = vals
        if r.variant != 0:
            e.witness("create_failed")
            return None
        e.witness("created")
        # independent normalisation
        letters = [v for v in vals if v > 64]
        up = [v - 32 if v >= 97 else v for v in letters]
        exp = bytes(u if chr(u) in "ACGTNRYSWKMBDHVU" else ord("N") for u in up)
        if any(chr(u) not in "ACGTNRYSWKMBDHVU" for u in up): e.witness("unknown_letter")
        if any(v >= 97 for v in letters): e.witness("lower_case")
        got = read_all(e)
        e.prove(got is not None, "fasta:archive_unreadable", "create returned Ok but the archive cannot be opened")
        ev = e.eval_concrete          # every symbolic byte was pinned to one value above: the model value is THE value on this path
        names = [bytes(ev(x) for x in nm) for nm, _ in got]
        e.prove(names == [b"ref", b"smp"], "fasta:sample_list", f"archive lists {names}")
        for nm, cs in got:
            e.prove(cs is not None, "fasta:not_extractable", f"sample {bytes(ev(x) for x in nm)!r} is listed but cannot be extracted")
        smp_recs = [(bytes(ev(x) for x in h), bytes(LETTERS[ev(x)] if ev(x) < 16 else ord("N") for x in sq)) for h, sq in got[1][1]]
        want = ([(b"c1", exp)] if exp else []) + [(b"c2", b"ACGTAACG")]
        have = [r_ for r_ in smp_recs if r_[1] or r_[0] != b"c1"]       # an empty c1 record may be kept or skipped
        e.prove(have == want, "fasta:record_lost_or_changed", f"sample smp extracts as {smp_recs}, the text normalises to {want}")
        e.witness("extracted")
        return None

    def classify_panic(self, e, ex):
        return f"fasta:panic:{ex.where.split('::')[-1]}:{ex.kind}", str(ex)

    def native(self, inp):
        vals = inp.get("text") or inp.get("t") or []
        letters = [v for v in vals if v > 64]
        up = [v - 32 if v >= 97 else v for v in letters]
        exp = "".join(chr(u) if chr(u) in "ACGTNRYSWKMBDHVU" else "N" for u in up)
        smp = ">c1\n" + "".join(chr(v) for v in vals) + "\n>c2\nACGTAACG\n"
        want_ref = [[h.decode(), "".join(chr(LETTERS[c]) for c in sq)] for h, sq in FILES2[0][1]]
        return "cli_create_roundtrip", {"files": [["ref.fa", fasta(FILES2[0][1]).decode()], ["smp.fa", smp]], "threads": self.threads, "k": 3, "may_fail": True,
                                        "want": [["ref", want_ref], ["smp", ([["c1", exp]] if exp else []) + [["c2", "ACGTAACG"]]]]}

    def confirm(self, viol, outs):
        return any(("panic" in o or "crash" in o or o.get("ok") is False) for o in outs.values())


PAN = [(b"pan.fa", [(b"s1#0#chr1", C1), (b"s1#0#chr2", [3, 3, 2, 0]), (b"s2#0#chr1", C2), (b"s2#0#chr2", C1[:9] + [7] + C1[10:])])]
_reg(CliCreate("create_pan_t1", PAN, threads=1))
_reg(CliCreate("create_pan_t2", PAN, threads=2))
SMALL2 = [(b"ref.fa", [(b"chr1", C1)]), (b"smp.fa", [(b"chr1", C2), (b"short", [2, 1])])]
_reg(CliCreate("T_create_two_t2_p1", SMALL2, threads=2, preempt=1))
_reg(CliCreate("T_create_two_t3", FILES2[:2], threads=3, preempt=0))
_reg(CliPresentations("present_arc", FILES2))
_reg(CliAnyText("anytext3", 3))
_reg(CliAnyText("T_anytext4", 4))


class CliPanVsFiles(Instance):
    """C19: one PanSN file versus one file per sample with the same headers: same sample list, identical extracted contigs."""
    crates = ("ragc-cli", "ragc-core", "ragc-common")

    def __init__(self, name, records, threads=1):
        Instance.__init__(self, name)
        self.records, self.threads = records, threads
        self.required_witnesses = ("both_created", "same_content")
        self.n_concrete = 0
        self.bounds = {"records": f"{len(records)} PanSN records of {len({h.split(b'#')[0] for h, _ in records})} samples (concrete); second sample's first contig has one symbolic base at every position over codes 0..4",
                       "presentations": "single PanSN file (single-file mode) vs one file per sample (multi-file mode)"}

    def path(self, e):
        recs = [(h, [Int(8, 0, x) for x in sq]) for h, sq in self.records]
        # one symbolic substitution in the first record of the last sample
        idx = max(i for i, (h, _) in enumerate(recs) if h.split(b"#")[0] == recs[-1][0].split(b"#")[0] and (i == 0 or recs[i - 1][0].split(b"#")[0] != h.split(b"#")[0]))
        pos = e.choose(len(recs[idx][1]), "pos")
        b = e.sym_bytes("b", 1, among=[0, 1, 2, 3, 4])[0]
        recs[idx][1][pos] = b
        L = b"ACGTN"

        def text(rs):
            out = []
            for h, sq in rs:
                out += [Int(8, 0, x) for x in b">" + h + b"\n"]
                for x in sq:
                    ch = Int(8, 0, L[4])
                    for code in range(4):
                        ch = ite_int(e.binop("Eq", x, Int(8, 0, code)), Int(8, 0, L[code]), ch)
                    out.append(ch if not x.conc() else Int(8, 0, LETTERS[x.v]))
                out.append(Int(8, 0, 10))
            return out
        r1 = run_create(e, [(b"/in/pan.fa", text(recs))], threads=self.threads)
        e.prove(r1.variant == 0, "present:create_failed", "create failed on the PanSN file")
        a = read_all(e)
        samples = []
        for h, sq in recs:
            sm = b"#".join(h.split(b"#")[:2])
            if not samples or samples[-1][0] != sm:
                samples.append((sm, []))
            samples[-1][1].append((h, sq))
        r2 = run_create(e, [(b"/in/" + sm.replace(b"#", b"_") + b".fa", text(rs)) for sm, rs in samples], threads=self.threads)
        e.prove(r2.variant == 0, "present:create_failed", "create failed on the per-sample files")
        bb = read_all(e)
        e.witness("both_created")
        for v in range(5):
            if e.branch(e.binop("Eq", b, Int(8, 0, v))):
                break
        ev = e.eval_concrete
        norm = lambda got: None if got is None else [(bytes(ev(x) for x in nm), None if cs is None else [(bytes(ev(x) for x in h), [ev(x) for x in sq]) for h, sq in cs]) for nm, cs in got]
        na, nb = norm(a), norm(bb)
        e.inputs["value"] = v
        e.prove(na is not None and nb is not None, "present:archive_unreadable", "an archive cannot be opened")
        e.prove(na == nb, "present:pansn_vs_files", f"single PanSN file gives {na}, per-sample files give {nb}")
        want = [(sm, [(h, [ev(x) for x in sq]) for h, sq in rs]) for sm, rs in samples]
        e.prove(na == want, "present:pansn_roundtrip", f"single PanSN file extracts {na}, input was {want}")
        e.witness("same_content")
        return None

    def classify_panic(self, e, ex):
        return f"present:panic:{ex.where.split('::')[-1]}:{ex.kind}", str(ex)

    def native(self, inp):
        recs = [(h, list(sq)) for h, sq in self.records]
        idx = max(i for i, (h, _) in enumerate(recs) if h.split(b"#")[0] == recs[-1][0].split(b"#")[0] and (i == 0 or recs[i - 1][0].split(b"#")[0] != h.split(b"#")[0]))
        recs[idx][1][inp.get("pos", 0)] = inp.get("value", (inp.get("b") or [0])[0])
        samples = []
        for h, sq in recs:
            sm = b"#".join(h.split(b"#")[:2])
            if not samples or samples[-1][0] != sm:
                samples.append((sm, []))
            samples[-1][1].append((h, sq))
        want = [[sm.decode(), [[h.decode(), "".join(chr(LETTERS[c]) for c in sq)] for h, sq in rs]] for sm, rs in samples]
        return "cli_create_pan_vs_files", {"pan": [["pan.fa", fasta(recs).decode()]], "files": [[sm.replace(b"#", b"_").decode() + ".fa", fasta(rs).decode()] for sm, rs in samples], "want": want, "threads": self.threads}

    def confirm(self, viol, outs):
        return any(("panic" in o or "crash" in o or o.get("ok") is False) for o in outs.values())


from mirsym.models import ite_int
# PanSN names where one sample#haplotype is a string prefix of the next one (s#1 / s#10)
PAN2 = [(b"pan.fa", [(b"s#1#c1", C1), (b"s#1#c2", [3, 3, 2, 0]), (b"s#10#c1", C2), (b"s#2#c1", C1[:9] + [7] + C1[10:])])]
_reg(CliPanVsFiles("pan_vs_files", PAN2[0][1]))
_reg(CliCreate("create_pan_prefix_t1", PAN2, threads=1))
