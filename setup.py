#!/usr/bin/env python3
"""Offline setup: build the native replay binary (dev+release), pre-build the Kani crate and take the MIR dumps.
Everything is rebuilt from files on disk; nothing is fetched."""
import os, sys
sys.path.insert(0, os.path.dirname(os.path.abspath(__file__)))
from lib import common, replay
from lib.common import log

def main():
    os.makedirs(common.BUILD, exist_ok=True)
    os.makedirs(common.EVID, exist_ok=True)
    for prof in ("dev", "release"):
        replay.build(prof); log(f"[setup] replay {prof} built")
    for c in ("ragc-common", "ragc-core", "ragc-cli"):
        common.mir_dump(c)
    from lib import kani
    kani._prep()
    rc, out = common.run_cmd(["cargo", "kani", "--target-dir", kani.TDIR, "--only-codegen"], cwd=kani.CRATE, timeout=3000)
    log(f"[setup] kani codegen rc={rc}")
    if rc != 0:
        log(out[-3000:]); return 1
    return 0

if __name__ == "__main__":
    sys.exit(main())
