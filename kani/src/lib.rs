//! Kani harnesses (engine E1) over the real ragc-core / ragc-common code.
//! One harness per concrete k (symbolic shift amounts are infeasible for CBMC, see DESIGN §2).
#![allow(clippy::all)]

pub mod kmer_checks;

#[cfg(kani)]
mod kmer_harness {
    use crate::kmer_checks::{involution_checks, restart_checks, slide_checks};
    use ragc_core::kmer::{Kmer, KmerMode};

    fn slide<const K: usize, const N: usize>() {
        let seq: [u8; N] = kani::any();
        let mut i = 0;
        while i < N {
            kani::assume(seq[i] < 4);
            i += 1;
        }
        let code = slide_checks::<K, N>(&seq);
        assert!(code == 0, "k-mer relation violated");
        kani::cover!(code == 0, "checks completed");
    }

    fn involution<const K: usize>() {
        let w: u64 = kani::any();
        let code = involution_checks::<K>(w);
        assert!(code == 0, "k-mer involution violated");
        kani::cover!(code == 0, "checks completed");
    }

    fn restart<const K: usize, const N: usize>() {
        let prefix: [u8; N] = kani::any();
        let w: [u8; K] = kani::any();
        let p: usize = kani::any();
        kani::assume(p <= N);
        let mut i = 0;
        while i < N {
            kani::assume(prefix[i] < 4);
            i += 1;
        }
        let mut i = 0;
        while i < K {
            kani::assume(w[i] < 4);
            i += 1;
        }
        let code = restart_checks::<K, N>(&prefix, p, &w);
        assert!(code == 0, "k-mer restart relation violated");
        kani::cover!(code == 0 && p == N, "checks completed after a full window");
        kani::cover!(code == 0 && p == 1, "checks completed after one symbol");
    }

    /// Vacuity twin: must FAIL (reachability witness for the slide harness shape).
    #[kani::proof]
    #[kani::unwind(8)]
    fn kmer_vacuity_twin_must_fail() {
        let seq: [u8; 5] = kani::any();
        let mut i = 0;
        while i < 5 {
            kani::assume(seq[i] < 4);
            i += 1;
        }
        let mut km = Kmer::new(3, KmerMode::Canonical);
        let mut n = 0;
        while n < 5 {
            km.insert(seq[n] as u64);
            n += 1;
        }
        assert!(!km.is_full(), "twin: reachable, must be violated");
    }

    macro_rules! kmer_family {
        ($($k:literal $n:literal $slide:ident $inv:ident $rs:ident $u:literal;)*) => {$(
            #[kani::proof]
            #[kani::unwind($u)]
            fn $slide() { slide::<$k, $n>(); }
            #[kani::proof]
            #[kani::unwind($u)]
            fn $rs() { restart::<$k, $n>(); }
            #[kani::proof]
            #[kani::unwind($u)]
            fn $inv() { involution::<$k>(); }
        )*};
    }
    // k, n = k+2, names, unwind = n+2
    kmer_family! {
        1 3 kmer_slide_k01 kmer_inv_k01 kmer_restart_k01 5;
        2 4 kmer_slide_k02 kmer_inv_k02 kmer_restart_k02 6;
        3 5 kmer_slide_k03 kmer_inv_k03 kmer_restart_k03 7;
        4 6 kmer_slide_k04 kmer_inv_k04 kmer_restart_k04 8;
        5 7 kmer_slide_k05 kmer_inv_k05 kmer_restart_k05 9;
        6 8 kmer_slide_k06 kmer_inv_k06 kmer_restart_k06 10;
        7 9 kmer_slide_k07 kmer_inv_k07 kmer_restart_k07 11;
        8 10 kmer_slide_k08 kmer_inv_k08 kmer_restart_k08 12;
        9 11 kmer_slide_k09 kmer_inv_k09 kmer_restart_k09 13;
        10 12 kmer_slide_k10 kmer_inv_k10 kmer_restart_k10 14;
        11 13 kmer_slide_k11 kmer_inv_k11 kmer_restart_k11 15;
        12 14 kmer_slide_k12 kmer_inv_k12 kmer_restart_k12 16;
        13 15 kmer_slide_k13 kmer_inv_k13 kmer_restart_k13 17;
        14 16 kmer_slide_k14 kmer_inv_k14 kmer_restart_k14 18;
        15 17 kmer_slide_k15 kmer_inv_k15 kmer_restart_k15 19;
        16 18 kmer_slide_k16 kmer_inv_k16 kmer_restart_k16 20;
        17 19 kmer_slide_k17 kmer_inv_k17 kmer_restart_k17 21;
        18 20 kmer_slide_k18 kmer_inv_k18 kmer_restart_k18 22;
        19 21 kmer_slide_k19 kmer_inv_k19 kmer_restart_k19 23;
        20 22 kmer_slide_k20 kmer_inv_k20 kmer_restart_k20 24;
        21 23 kmer_slide_k21 kmer_inv_k21 kmer_restart_k21 25;
        22 24 kmer_slide_k22 kmer_inv_k22 kmer_restart_k22 26;
        23 25 kmer_slide_k23 kmer_inv_k23 kmer_restart_k23 27;
        24 26 kmer_slide_k24 kmer_inv_k24 kmer_restart_k24 28;
        25 27 kmer_slide_k25 kmer_inv_k25 kmer_restart_k25 29;
        26 28 kmer_slide_k26 kmer_inv_k26 kmer_restart_k26 30;
        27 29 kmer_slide_k27 kmer_inv_k27 kmer_restart_k27 31;
        28 30 kmer_slide_k28 kmer_inv_k28 kmer_restart_k28 32;
        29 31 kmer_slide_k29 kmer_inv_k29 kmer_restart_k29 33;
        30 32 kmer_slide_k30 kmer_inv_k30 kmer_restart_k30 34;
        31 33 kmer_slide_k31 kmer_inv_k31 kmer_restart_k31 35;
        32 34 kmer_slide_k32 kmer_inv_k32 kmer_restart_k32 36;
    }
}

#[cfg(kani)]
mod zigzag_harness {
    use ragc_common::collection::{
        zigzag_decode, zigzag_decode_i64, zigzag_encode, zigzag_encode_i64,
    };

    /// Predictive zig-zag (u32 pair): decode inverts encode for every (value, prediction).
    #[kani::proof]
    fn zigzag_pred_roundtrip() {
        let x: u32 = kani::any();
        let p: u32 = kani::any();
        let e = zigzag_encode(x as u64, p as u64);
        let d = zigzag_decode(e, p as u64);
        assert!(d == x as u64);
        kani::cover!(x < p, "below prediction");
        kani::cover!(x >= p, "at/above prediction");
    }

    #[kani::proof]
    fn zigzag_i64_roundtrip() {
        let x: i64 = kani::any();
        // domain: |x| < 2^62 (the code computes 2*x / 2*(-x) in i64; callers pass byte/field differences)
        kani::assume(x > -(1i64 << 62) && x < (1i64 << 62));
        let e = zigzag_encode_i64(x);
        assert!(zigzag_decode_i64(e) == x);
        // small magnitudes get small codes (independent statement of the format rule)
        if x >= 0 {
            assert!(e == (x as u64) * 2);
        } else {
            assert!(e == ((-x) as u64) * 2 - 1);
        }
    }
}
