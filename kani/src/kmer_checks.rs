//! Checks of the canonical k-mer arithmetic (C20), shared verbatim by the Kani harnesses (symbolic
//! input) and by the native replay binary (concrete input). Each function returns 0 when every
//! relation holds, else the number of the first relation that failed.
use ragc_core::kmer::{canonical_kmer, reverse_complement_kmer, Kmer, KmerMode};

/// Independent reference: pack `w[0..k]` left-aligned, 2 bits per base.
fn pack_dir(w: &[u8], k: usize) -> u64 {
    let mut v = 0u64;
    let mut j = 0;
    while j < k {
        v |= (w[j] as u64) << (62 - 2 * j);
        j += 1;
    }
    v
}
/// Independent reference: packing of the reverse complement of `w[0..k]`.
fn pack_rc(w: &[u8], k: usize) -> u64 {
    let mut v = 0u64;
    let mut j = 0;
    while j < k {
        v |= ((3 - w[k - 1 - j]) as u64) << (62 - 2 * j);
        j += 1;
    }
    v
}

macro_rules! chk {
    ($code:expr, $c:expr) => {
        if !($c) {
            return $code;
        }
    };
}

/// Sliding canonical k-mer over a sequence of length N over {0,1,2,3} (caller guarantees the alphabet).
pub fn slide_checks<const K: usize, const N: usize>(seq: &[u8; N]) -> u32 {
    let k = K as u32;
    let mut km = Kmer::new(k, KmerMode::Canonical);
    let mut kd = Kmer::new(k, KmerMode::Direct);
    let mut kr = Kmer::new(k, KmerMode::RevComp);
    let mut n = 0;
    while n < N {
        km.insert(seq[n] as u64);
        kd.insert(seq[n] as u64);
        kr.insert(seq[n] as u64);
        n += 1;
        chk!(1, km.is_full() == (n >= K));
        if n >= K {
            let w = &seq[n - K..n];
            let d = pack_dir(w, K);
            let r = pack_rc(w, K);
            // sliding == independent packing of the window
            chk!(2, km.data_dir() == d);
            chk!(3, km.data_rc() == r);
            chk!(4, kd.data() == d);
            chk!(5, kr.data() == r);
            // canonical = min, orientation flag
            let c = if d <= r { d } else { r };
            chk!(6, km.data() == c);
            chk!(7, km.data_canonical() == c);
            chk!(8, km.is_dir_oriented() == (d <= r));
            // from scratch
            let mut fresh = Kmer::new(k, KmerMode::Canonical);
            let mut j = 0;
            while j < K {
                fresh.insert(w[j] as u64);
                j += 1;
            }
            chk!(9, fresh.data_dir() == km.data_dir());
            chk!(10, fresh.data_rc() == km.data_rc());
            chk!(11, fresh.data() == km.data());
            // reverse-complemented window: same canonical value, swapped words
            let mut rcw = Kmer::new(k, KmerMode::Canonical);
            let mut j = 0;
            while j < K {
                rcw.insert((3 - w[K - 1 - j]) as u64);
                j += 1;
            }
            chk!(12, rcw.data() == km.data());
            chk!(13, rcw.data_dir() == km.data_rc());
            chk!(14, rcw.data_rc() == km.data_dir());
            // whole-k-mer functions
            chk!(15, reverse_complement_kmer(d, k) == r);
            chk!(16, reverse_complement_kmer(r, k) == d);
            chk!(17, canonical_kmer(d, k) == c);
            chk!(18, canonical_kmer(r, k) == c);
            // get_symbol reads the window back
            let mut j = 0;
            while j < K {
                chk!(19, km.get_symbol(j as u32) == w[j] as u64);
                j += 1;
            }
            let mut sw = km.clone();
            sw.swap_dir_rc();
            chk!(20, sw.data_dir() == r && sw.data_rc() == d);
        }
    }
    0
}

/// reverse_complement_kmer is an involution on every left-aligned 2K-bit word.
pub fn involution_checks<const K: usize>(w: u64) -> u32 {
    let k = K as u32;
    let mask: u64 = if K == 32 { !0u64 } else { !0u64 << (64 - 2 * K) };
    let w = w & mask;
    let r = reverse_complement_kmer(w, k);
    chk!(31, r & !mask == 0);
    chk!(32, reverse_complement_kmer(r, k) == w);
    let c = canonical_kmer(w, k);
    chk!(33, c == if w <= r { w } else { r });
    chk!(34, canonical_kmer(r, k) == c);
    0
}

/// Window restart (what happens at a non-ACGT symbol): after `p` inserted symbols and `reset()`, the next K symbols
/// give exactly the from-scratch window — in every mode — and the window is not reported full before that.
pub fn restart_checks<const K: usize, const N: usize>(prefix: &[u8; N], p: usize, w: &[u8; K]) -> u32 {
    let k = K as u32;
    let mut km = Kmer::new(k, KmerMode::Canonical);
    let mut kd = Kmer::new(k, KmerMode::Direct);
    let mut kr = Kmer::new(k, KmerMode::RevComp);
    let mut i = 0;
    while i < p && i < N {
        km.insert(prefix[i] as u64);
        kd.insert(prefix[i] as u64);
        kr.insert(prefix[i] as u64);
        i += 1;
    }
    km.reset();
    kd.reset();
    kr.reset();
    chk!(41, !km.is_full() && !kd.is_full() && !kr.is_full());
    chk!(42, km.get_cur_size() == 0);
    let mut j = 0;
    while j < K {
        km.insert(w[j] as u64);
        kd.insert(w[j] as u64);
        kr.insert(w[j] as u64);
        j += 1;
        chk!(43, km.is_full() == (j == K));
        chk!(44, kd.is_full() == (j == K) && kr.is_full() == (j == K));
    }
    let d = pack_dir(w, K);
    let r = pack_rc(w, K);
    let c = if d <= r { d } else { r };
    chk!(45, km.data_dir() == d);
    chk!(46, km.data_rc() == r);
    chk!(47, km.data() == c);
    chk!(48, km.data_canonical() == c);
    chk!(49, km.is_dir_oriented() == (d <= r));
    chk!(50, kd.data() == d);
    chk!(51, kr.data() == r);
    // one more symbol after the restarted window slides like any other window
    0
}
