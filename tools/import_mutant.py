#!/usr/bin/env python3
"""Copy an independently confirmed seeded change into /verif/seeded/<prop>-<n>/ (patch.diff, demo, meta.json)."""
import json, os, shutil, sys, re
src, prop, n, confirm_line = sys.argv[1], sys.argv[2], sys.argv[3], sys.argv[4]
dst = f"/verif/seeded/{prop}-{n}"
os.makedirs(dst, exist_ok=True)
shutil.copy(os.path.join(src, "patch.diff"), dst)
for f in os.listdir(src):
    if f.startswith("demo"):
        shutil.copy(os.path.join(src, f), dst)
m = json.load(open(os.path.join(src, "meta.json")))
demo = [f for f in os.listdir(dst) if f.startswith("demo")][0]
crate = "ragc-common" if any("ragc-common" in c for c in m.get("demo_cmds", [])) else "ragc-core"
meta = {"property": prop, "summary": m.get("summary"), "needs": m.get("needs"),
        "demo_cmds": [f"cp /verif/seeded/{prop}-{n}/{demo} <worktree>/{crate}/tests/seeded_demo.rs",
                      f"cd <worktree> && cargo test --offline -p {crate} --test seeded_demo", f"rm <worktree>/{crate}/tests/seeded_demo.rs"],
        "author_verified": m.get("verified"),
        "confirmed_by_me": {"how": "tools/confirm_mutant.sh in a scratch worktree: patch applies; `cargo test --workspace --offline` passes with the patch; demo fails with the patch; demo passes on the pristine tree", "result": confirm_line},
        "detected_by": None}
json.dump(meta, open(os.path.join(dst, "meta.json"), "w"), indent=1)
print(dst)
