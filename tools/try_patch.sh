#!/bin/bash
# usage: try_patch.sh <patch.diff> <prop> [tier] -- apply a seeded change to /repo, run the check, always undo.
P=$1; ID=$2; TIER=${3:-quick}
cd /repo && git apply "$P" || { echo "patch does not apply"; exit 2; }
cd /verif && python3-vt run.py $ID --tier $TIER; RC=$?
git -C /repo checkout -- . 
echo "exit=$RC"
