#!/bin/bash
# usage: confirm2.sh <worktree> <outdir> -- independently confirm a seeded change delivered by a sub-agent:
#  (1) patch applies on the clean tree, (2) the whole existing suite passes with it, (3) the demo fails with it, (4) the demo passes without it.
WT=$1; OUT=$2
CRATE=$(python3 -c "import json,sys; print(json.load(open('$OUT/meta.json')).get('demo_crate','ragc-core'))")
cd "$WT" || exit 2
git checkout -q -- . ; rm -f */tests/seeded_demo.rs
LOG=$OUT/confirm.log; : > "$LOG"
git apply "$OUT/patch.diff" >>"$LOG" 2>&1 || { echo "$OUT: PATCH DOES NOT APPLY"; exit 1; }
cargo test --workspace --no-fail-fast --offline -j 6 >>"$LOG" 2>&1; SUITE=$?
if [ $SUITE -ne 0 ]; then cargo test --workspace --no-fail-fast --offline -j 6 >>"$LOG" 2>&1; SUITE=$?; fi
mkdir -p "$WT/$CRATE/tests"; cp "$OUT/demo.rs" "$WT/$CRATE/tests/seeded_demo.rs"
timeout 900 cargo test --offline -j 6 -p $CRATE --test seeded_demo >>"$LOG" 2>&1; WITH=$?
git checkout -q -- .
timeout 900 cargo test --offline -j 6 -p $CRATE --test seeded_demo >>"$LOG" 2>&1; WITHOUT=$?
rm -f "$WT/$CRATE/tests/seeded_demo.rs"
echo "$OUT: crate=$CRATE suite_with_patch=$SUITE demo_with_patch=$WITH(expect!=0) demo_without=$WITHOUT(expect 0)" | tee "$OUT/confirm.txt"
