#!/usr/bin/env python3
"""Copy an independently confirmed seeded change (sub-agent out dir) into /verif/seeded/<prop>-<n>/."""
import json, os, shutil, sys
src, prop, n = sys.argv[1], sys.argv[2], sys.argv[3]
dst = f"/verif/seeded/{prop}-{n}"
os.makedirs(dst, exist_ok=True)
shutil.copy(os.path.join(src, "patch.diff"), dst); shutil.copy(os.path.join(src, "demo.rs"), dst)
m = json.load(open(os.path.join(src, "meta.json")))
crate = m.get("demo_crate", "ragc-core")
conf = open(os.path.join(src, "confirm.txt")).read().strip()
meta = {"property": prop, "summary": m.get("summary"), "needs": m.get("needs"),
        "demo_cmds": [f"cp /verif/seeded/{prop}-{n}/demo.rs <worktree>/{crate}/tests/seeded_demo.rs", f"cd <worktree> && cargo test --offline -p {crate} --test seeded_demo", f"rm <worktree>/{crate}/tests/seeded_demo.rs"],
        "author_verified": m.get("verified"),
        "confirmed_by_me": {"how": "tools/confirm2.sh in the scratch worktree: patch applies on the clean tree; `cargo test --workspace --no-fail-fast --offline` passes with the patch (re-run serially when the /tmp-racy test_subsequence failed under parallel confirmation runs); demo fails with the patch; demo passes on the pristine tree", "result": conf},
        "detected_by": None,
        "what_i_ran": "tools/try_patch.sh seeded/<id>/patch.diff <check> (git -C /repo apply; python3-vt run.py <check> --tier quick; git -C /repo checkout -- .)"}
json.dump(meta, open(os.path.join(dst, "meta.json"), "w"), indent=1)
print(dst)
