#!/bin/bash
# usage: confirm_mutant.sh <worktree> <mutant-dir>  -- independently confirm a seeded mutant:
#   (1) patch applies, (2) the existing test suite passes with it, (3) the demo fails with it, (4) the demo passes without it.
# Writes <mutant-dir>/confirm.log and prints one summary line.
WT=$1; M=$2
cd "$WT" || exit 2
git checkout -q -- . && git clean -fdq -e target
LOG=$M/confirm.log; : > "$LOG"
git apply "$M/patch.diff" >>"$LOG" 2>&1 || { echo "$M: PATCH DOES NOT APPLY"; exit 1; }
cargo test --workspace --offline -j 8 >>"$LOG" 2>&1; SUITE=$?
if [ $SUITE -ne 0 ]; then   # test_subsequence uses fixed /tmp paths and is racy across checkouts: retry once
  cargo test --workspace --offline -j 8 >>"$LOG" 2>&1; SUITE=$?
fi
python3 - "$M" > /tmp/demo_cmds.$$ <<'PY'
import json,sys
m=json.load(open(sys.argv[1]+"/meta.json"))
for c in m["demo_cmds"]: print(c)
PY
run_demo() { ( set -o pipefail; export MDIR="$M"; while IFS= read -r c; do (cd "$WT" && eval "$c") >>"$LOG" 2>&1 || return 1; done < /tmp/demo_cmds.$$; return 0 ); }
run_demo; WITH=$?
git checkout -q -- . && git clean -fdq -e target
run_demo; WITHOUT=$?
git checkout -q -- . && git clean -fdq -e target
rm -f /tmp/demo_cmds.$$
echo "$M: suite_with_patch=$SUITE demo_with_patch=$WITH(expect!=0) demo_without=$WITHOUT(expect 0)"
