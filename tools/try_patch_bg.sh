#!/bin/bash
# usage: try_patch_bg.sh <patch.diff> <prop> [tier]  -- test a seeded change in a scratch copy of /repo (does not touch /repo).
P=$1; ID=$2; TIER=${3:-quick}
D=$(mktemp -d /tmp/repo-mut-XXXX)
git -C /repo worktree add -q --detach $D HEAD || exit 2
( cd $D && git apply "$P" ) || { echo "patch does not apply"; git -C /repo worktree remove --force $D; exit 2; }
cd /verif && VERIF_REPO=$D python3-vt run.py $ID --tier $TIER; RC=$?
B=$(python3-vt -c "import os,sys; os.environ['VERIF_REPO']='$D'; sys.path.insert(0,'/verif'); from lib import common; print(common.BUILD)")
rm -rf "$B"; git -C /repo worktree remove --force $D
echo "exit=$RC"
