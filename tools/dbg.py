#!/usr/bin/env python3
"""Development aid: explore one harness instance serially in-process, stop at the first inconclusive result."""
import sys, os, time, json
sys.path.insert(0, os.path.dirname(os.path.dirname(os.path.abspath(__file__))))
sys.setrecursionlimit(20000)
from mirsym import explore as ex
mod, inst = sys.argv[1], sys.argv[2]
maxp = int(sys.argv[3]) if len(sys.argv) > 3 else 200
t = time.time()
work = [[]]; tot = 0; viol = {}
while work and tot < maxp:
    r = ex.run_chunk(mod, inst, work.pop(), 50, 30)
    tot += r["paths"]; work.extend(r["leftover"])
    for v in r["violations"]:
        viol.setdefault(v["role"], v)
    if r["inconclusive"]:
        print("INCONCLUSIVE:", r["inconclusive"][0]); break
print(f"paths={tot} left={len(work)} wall={time.time()-t:.1f}s")
for k, v in viol.items():
    print("VIOL", k, json.dumps(v)[:600])
print("witnesses", r["witnesses"])
