#!/usr/bin/env python3
"""Development aid: explore one harness instance with the parallel explorer (all cores); print the aggregate."""
import sys, os, time, json
sys.path.insert(0, os.path.dirname(os.path.dirname(os.path.abspath(__file__))))
from mirsym import explore as ex
mod, inst = sys.argv[1], sys.argv[2]
maxw = int(sys.argv[3]) if len(sys.argv) > 3 else 1200
agg = ex.explore(mod, inst, jobs=16, max_wall=maxw)
print(f"paths={agg['paths']} completed={agg['completed']} panics={agg['panics']} viol={agg['violation_counts']} wall={agg['wall_s']} exhaustive={agg['exhaustive']} inconc={agg['inconclusive'][:2]}")
print("witnesses", agg["witnesses"])
for v in agg["violations"][:3]:
    print("VIOL", v["role"], v["desc"][:300], json.dumps(v["inputs"], default=str)[:600])
